#!/bin/bash
# usage: tools_mut.sh <file-rel> <python-regex-old> <new> -- <dev args...>   : applies a textual mutation on a scratch copy and runs dev.py against it
set -e
D=$(mktemp -d /tmp/mut.XXXXXX)
mkdir -p $D/scriptplan
rsync -a --exclude '*.so' --exclude '__pycache__' /repo/scriptplan/ $D/scriptplan/
f="$1"; old="$2"; new="$3"; shift 3; shift
python3 - "$D/$f" "$old" "$new" <<'PY'
import sys,re
p,old,new=sys.argv[1:4]
s=open(p).read()
n=s.count(old)
if n==0: print("MUTATION PATTERN NOT FOUND"); sys.exit(2)
s=s.replace(old,new,1)
open(p,'w').write(s)
print(f"mutated {p}: {n} occurrence(s), first replaced")
PY
VERIF_REPO=$D timeout 900 python3-vt /verif/dev.py "$@" 2>&1 | grep -v "^   done" | grep -v "^==" | tail -${TAILN:-15}
rm -rf $D
