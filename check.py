#!/usr/bin/env python3-vt
"""Registered check driver:  ./check.py <PROPERTY> [--tier quick|thorough]

Per run, from /repo's current working tree (or VERIF_REPO):
  1. re-extract every function under contract for the property and generate its obligations (pyvc);
  2. discharge them (z3, cvc5 on unknown); vacuity/cover/canary guards;
  3. replay refuted obligations natively; run the native cross-check of the contracts on random pre-states;
  4. run the bounded stand-ins of the property (labelled bounded, never counted as proved);
  5. apply KNOWN_FINDINGS.json; write evidence/<id>.json; exit 0 / 1 (VIOLATION) / 2 (UNDECIDED) / 3 (checker error).
"""
from __future__ import annotations
import argparse
import hashlib
import importlib
import json
import os
import subprocess
import sys
import time

HERE = os.path.dirname(os.path.abspath(__file__))
sys.path.insert(0, HERE)
os.chdir(HERE)

from pyvc.engine import REG, ASSUMPTIONS  # noqa: E402
from pyvc import verify, solve, source  # noqa: E402
import z3  # noqa: E402


def _level_text(prop):
    try:
        from tools import manifest_meta
        t = manifest_meta.TEXT[prop]
        return t["level_text"] + " TRUSTED/ASSUMED: " + t["level_note"]
    except Exception:
        return "contract-based deductive verification of the functions listed under functions_under_contract"


def load_index():
    from contracts import index
    return index


NATIVE_INFO = {}


def native_root():
    """Tree that the native parts import scriptplan from (see native/overlay.py)."""
    from native import overlay
    info = overlay.native_root(source.repo_root())
    NATIVE_INFO.update(info)
    return info["root"]


def native_call(jobs, timeout=600):
    env = dict(os.environ)
    env["VERIF_REPO"] = native_root()
    p = subprocess.run(["/venv/bin/python", os.path.join(HERE, "native", "run.py")], input=json.dumps({"jobs": jobs}),
                       capture_output=True, text=True, timeout=timeout, env=env, cwd=HERE)
    if p.returncode != 0:
        raise RuntimeError("native runner failed: " + p.stderr[-2000:])
    return json.loads(p.stdout)["results"]


def contract_job(c, inputs=None, n_random=0, seed=0, jid=None):
    return {"id": jid or c.key, "adapter": c.replay, "target": c.target, "variant": c.variant,
            "requires": [list(x) for x in c.requires], "ensures": [list(x) for x in c.ensures],
            "raises": dict(c.raises), "may_raise": list(c.may_raise),
            "ghost": {k: [v[0], v[1]] for k, v in REG.ghost.items()},
            "inputs": inputs, "n_random": n_random, "seed": seed}


class ObView:
    """Read-only view of a stored obligation result."""

    def __init__(self, r):
        self.id, self.kind, self.path, self.line, self.note = r["id"], r["kind"], r["path"], r["line"], r["note"]


_DIGEST = None


def tool_digest():
    global _DIGEST
    if _DIGEST is None:
        h = hashlib.sha256()
        for d in ("pyvc", "contracts"):
            for fn in sorted(os.listdir(os.path.join(HERE, d))):
                if fn.endswith(".py"):
                    h.update(open(os.path.join(HERE, d, fn), "rb").read())
        h.update(z3.get_version_string().encode())
        _DIGEST = h.hexdigest()
    return _DIGEST


def run_contract_cached(c, tier, timeout_ms):
    """Result of verifying one contract against the current source. Cached under .cache/ by (tool digest, tier,
    contract, full text of the target's source file): the same function text with the same contracts and engine
    gives the same obligations, so a property check reuses what another property's check already established in
    this tree state. Nothing is reused across different source texts."""
    h = hashlib.sha256()
    h.update(tool_digest().encode())
    h.update(f"{tier}|{c.key}|{timeout_ms}".encode())
    if not c.target.startswith("lemma::"):
        path = os.path.join(source.repo_root(), c.target.split("::")[0])
        h.update(open(path, "rb").read() if os.path.exists(path) else b"<missing>")
    # callee contracts live in the tool digest; callee *code* is not needed (modular verification)
    key = h.hexdigest()[:32]
    cdir = os.path.join(HERE, ".cache")
    os.makedirs(cdir, exist_ok=True)
    cpath = os.path.join(cdir, key + ".json")
    if os.environ.get("VERIF_NO_CACHE") != "1" and os.path.exists(cpath):
        try:
            doc = json.load(open(cpath))
            doc["_cached"] = True
            return doc
        except Exception:
            pass
    doc = run_contract(c, tier, timeout_ms)
    if all(r["status"] == "unsat" for r in doc["results"]) and not doc["undecided"] and not doc["errors"]:
        # only fully discharged results are reused; anything else is recomputed every time
        tmp = cpath + f".{os.getpid()}.tmp"
        json.dump(doc, open(tmp, "w"), default=str)
        os.replace(tmp, cpath)
    return doc


def run_contract(c, tier, timeout_ms):
    from pyvc.engine import Obligation
    g = verify.generate(c)
    fs = g.func
    doc = {"function": {"contract": c.name, "target": c.target, "variant": c.variant,
                        "source_sha": fs.sha if fs else None, "lines": list(fs.lines) if fs else None,
                        "paths": g.paths, "outcomes": g.outcomes, "obligations": len(g.obls),
                        "trusted": bool(c.trusted), "kind": "lemma" if c.target.startswith("lemma::") else "function",
                        "generation_s": round(g.gen_time, 2)},
           "undecided": [f"{c.name}: {u}" for u in g.undecided], "errors": [], "results": [],
           "canary": {"checked": 0, "vacuous": []}, "cover": {"paths": 0, "vacuous": []}}
    if not g.undecided and not c.trusted and not g.obls:
        doc["undecided"].append(f"{c.name}: generated zero obligations")
    if c.probes:
        pr = verify.probes_for(g, c.probes)
        for o in g.obls:
            o.probes = pr
    res = solve.discharge_all(g.obls, timeout_ms=timeout_ms)
    # second opinion for anything not discharged while all cores were busy: one at a time, doubled budget
    # (a verdict must not depend on machine load)
    # a solver *error* (seen once: a worker process whose z3 state was corrupted failed to re-parse three queries in a row)
    # is re-tried in this process, one query at a time, before it may count as a checker error
    broken = [i for i, r in enumerate(res) if r["status"] == "error"]
    if broken and len(broken) <= 40:
        again = solve.discharge_all([res[i]["obl"] for i in broken], timeout_ms=timeout_ms, parallel=False)
        for i, r2 in zip(broken, again):
            if r2["status"] != "error":
                r2["time"] += res[i]["time"]
                res[i] = r2
    weak = [i for i, r in enumerate(res) if r["status"] in ("unknown", "sat-inst")]
    if weak and len(weak) <= 8:
        # at most 8 queries on 16 cores: effectively unloaded. More than 8 weak verdicts are not a load artefact.
        again = solve.discharge_all([res[i]["obl"] for i in weak], timeout_ms=timeout_ms * 2, parallel=True)
        for i, r2 in zip(weak, again):
            if r2["status"] == "unsat" or (res[i]["status"] == "unknown" and r2["status"] != "unknown"):
                r2["time"] += res[i]["time"]
                res[i] = r2
    for r in res:
        o = r["obl"]
        doc["results"].append({"id": o.id, "kind": o.kind, "path": getattr(o, "path", ""), "line": o.line, "note": o.note,
                               "status": r["status"], "time": r["time"], "backends": r["backends"],
                               "parts": [{k: v for k, v in p.items()} for p in r["parts"]]})
    # thorough tier: an independent back end (cvc5) re-checks a sample of the obligations that z3 discharged.
    # cvc5 `unsat` = agreement, `unknown`/timeout = no second opinion, `sat` = DISAGREEMENT (checker error, exit 3).
    if tier == "thorough":
        import random as _r
        from concurrent.futures import ThreadPoolExecutor
        cand = [r["obl"] for r in res if r["status"] == "unsat" and r["obl"].kind in ("ensures", "inv-pres", "site", "cut", "relational")]
        _r.Random(len(cand)).shuffle(cand)
        texts = []
        for o in cand[:12]:
            for (sid, ti, _tf) in solve.prepare(o, ()):
                if ti is not None:
                    texts.append((sid, ti))
        texts = texts[:16]
        second = {"sampled": len(texts), "agree": 0, "no_opinion": 0, "disagree": []}
        if texts:
            with ThreadPoolExecutor(8) as tp:
                for (sid, _t), ans in zip(texts, tp.map(lambda x: solve.cvc5_recheck(x[1], 10000), texts)):
                    if ans == "unsat":
                        second["agree"] += 1
                    elif ans == "sat":
                        second["disagree"].append(sid)
                    else:
                        second["no_opinion"] += 1
        doc["second_backend"] = second
        for sid in second["disagree"]:
            doc["errors"].append(f"back ends disagree on {sid}: z3 unsat, cvc5 sat")
    # clause coverage guard
    if not g.undecided and not c.trusted:
        labels = {o.id.split("/", 1)[1] for o in g.obls}
        for lab, _ in c.ensures:
            if f"ensures:{lab}" not in labels:
                doc["undecided"].append(f"{c.name}: clause ensures:{lab} generated no obligation (contract no longer matches the code)")
    # vacuity canary: for every ensures clause some path must admit hyps & goal
    pick, cnt = [], {}
    for r in res:
        o = r["obl"]
        if o.kind == "ensures" and r["status"] == "unsat":
            cnt[o.id] = cnt.get(o.id, 0) + 1
            if cnt[o.id] <= 2:
                co = Obligation("canary:" + o.id, "canary", o.hyps, z3.Not(o.goal))
                co.base = o.id
                pick.append(co)
    seen_clause = {}
    if pick:
        for r in solve.discharge_all(pick, timeout_ms=3000, use_cvc5=False):
            base = r["obl"].base
            seen_clause[base] = seen_clause.get(base, False) or r["status"] in ("sat", "sat-inst", "unknown")
        for base, ok in seen_clause.items():
            doc["canary"]["checked"] += 1
            if not ok:
                doc["canary"]["vacuous"].append(base)
                doc["errors"].append(f"vacuous clause (its negation is also provable on every sampled path): {base}")
    # path cover: hypotheses of every explored path satisfiable
    cover_obls, seen_paths = [], set()
    for r in res:
        o = r["obl"]
        if o.kind in ("ensures", "raises") and getattr(o, "path", "") not in seen_paths:
            seen_paths.add(getattr(o, "path", ""))
            cover_obls.append(Obligation(f"cover:{c.name}:{getattr(o, 'path', '')}", "cover", o.hyps, z3.BoolVal(False)))
    doc["cover"]["paths"] = len(cover_obls)
    if cover_obls:
        for r in solve.discharge_all(cover_obls, timeout_ms=2000, use_cvc5=False):
            if r["status"] == "unsat":
                doc["cover"]["vacuous"].append(r["obl"].id)
                doc["undecided"].append(f"vacuous path (hypotheses unsatisfiable): {r['obl'].id}")
    return doc


def main():
    ap = argparse.ArgumentParser()
    ap.add_argument("prop")
    ap.add_argument("--tier", default=os.environ.get("VERIF_TIER", "quick"))
    ap.add_argument("-v", action="store_true")
    args = ap.parse_args()
    prop = args.prop
    tier = args.tier if args.tier in ("quick", "thorough") else "quick"
    seed = int(os.environ.get("VERIF_SEED", "0") or 0)
    t_start = time.time()
    index = load_index()
    meta = index.PROPS[prop]
    for m in meta["modules"]:
        importlib.import_module("contracts." + m)
    known = json.load(open(os.path.join(HERE, "KNOWN_FINDINGS.json"))) if os.path.exists(
        os.path.join(HERE, "KNOWN_FINDINGS.json")) else {"findings": []}
    known_all = [k for k in known.get("findings", []) if k.get("status") == "open" and
                 (k.get("property") == prop or prop in k.get("properties", []))]
    known_here = [k for k in known_all if k.get("kind") != "witness"]
    known_wit = [k for k in known_all if k.get("kind") == "witness"]

    timeout_ms = 15000 if tier == "quick" else 60000
    contracts = [c for c in REG.contracts.values() if prop in c.props]
    violations = []      # (obligation id, replay path, found_input)
    undecided = []
    errors = []
    known_lines = []
    functions = []
    all_results = []
    trusted = []
    solver_time = 0.0
    gens = {}
    canary = {"checked": 0, "vacuous": []}
    cover = {"paths": 0, "vacuous": []}
    cache_hits = 0
    second = {"sampled": 0, "agree": 0, "no_opinion": 0, "disagree": []}
    for c in contracts:
        doc = run_contract_cached(c, tier, timeout_ms)
        for k_ in ("sampled", "agree", "no_opinion"):
            second[k_] += doc.get("second_backend", {}).get(k_, 0)
        second["disagree"] += doc.get("second_backend", {}).get("disagree", [])
        cache_hits += 1 if doc.get("_cached") else 0
        gens[c.key] = doc
        functions.append(doc["function"])
        if c.trusted:
            trusted.append(f"TRUSTED contract (body not verified): {c.target} -- {c.note}")
        undecided.extend(doc["undecided"])
        errors.extend(doc["errors"])
        canary["checked"] += doc["canary"]["checked"]
        canary["vacuous"] += doc["canary"]["vacuous"]
        cover["paths"] += doc["cover"]["paths"]
        cover["vacuous"] += doc["cover"]["vacuous"]
        for r in doc["results"]:
            r = dict(r)
            r["contract"] = c
            r["obl"] = ObView(r)
            all_results.append(r)
            solver_time += r["time"]

    # ---- verdicts per obligation ------------------------------------------------------------------------------
    os.makedirs(os.path.join(HERE, "replays"), exist_ok=True)
    n_obl = len(all_results)
    n_dis = sum(1 for r in all_results if r["status"] == "unsat")
    backends = {}
    for r in all_results:
        for b in r["backends"]:
            backends[b] = backends.get(b, 0) + 1
    # "sat": a validated counter-model of the full query. "sat-inst": a counter-model only of the query with its
    # quantified hypotheses replaced by instances -- weaker evidence, treated like an undischarged obligation.
    refuted = [r for r in all_results if r["status"] == "sat"]
    # baseline rule: an obligation that was discharged on the unchanged tree and can no longer be discharged
    # after the function under contract changed is reported as a violation (no input found); if the function
    # is unchanged the solver is to blame and the obligation stays undecided.
    base_path = os.path.join(HERE, "baseline", f"{prop}.json")
    baseline = json.load(open(base_path)) if os.path.exists(base_path) else {}
    regressed = []
    for r in all_results:
        if r["status"] in ("unknown", "sat-inst"):
            c = r["contract"]
            b = baseline.get(c.key)
            sha = gens[c.key]["function"]["source_sha"]
            if b and sha and r["obl"].id in b.get("discharged", []) and b.get("sha") != sha:
                r["status"] = "regressed"
                regressed.append(r)
    for r in all_results:
        if r["status"] in ("unknown", "sat-inst"):
            undecided.append(f"{r['obl'].id}: solver unknown ({'; '.join(p.get('reason','') for p in r['parts'] if p['status']!='unsat')[:200]})")
        elif r["status"] == "error":
            errors.append(f"{r['obl'].id}: solver error {[p.get('reason') for p in r['parts'] if p['status']=='error'][:1]}")

    # group refutations by clause (path-independent id)
    by_clause = {}
    for r in refuted + regressed:
        by_clause.setdefault(r["obl"].id, []).append(r)

    replay_results = {}
    for oid, rs in by_clause.items():
        c = rs[0]["contract"]
        kf = [k for k in known_here if k["obligation"] == oid]
        model = None
        for r in rs:
            for p in r["parts"]:
                if p.get("model"):
                    model = p["model"]
                    break
            if model:
                break
        found_input = None
        native = None
        if c.replay and model and rs[0]["obl"].kind in ("ensures", "raises", "safety"):
            inp = {k[len("probe!"):]: v for k, v in model.items() if k.startswith("probe!")}
            if inp:
                try:
                    nr = native_call([contract_job(c, inputs=[inp], jid="replay")])["replay"]
                    native = nr
                    if nr["failures"]:
                        found_input = inp
                except Exception as e:  # noqa
                    native = {"error": str(e)}
        h = hashlib.sha256(oid.encode()).hexdigest()[:10]
        rpath = os.path.join("replays", f"{prop}-{h}.json")
        doc = {"property": prop, "obligation": oid, "contract": c.key, "target": c.target,
               "clause": rs[0]["obl"].note, "line": rs[0]["obl"].line,
               "paths": [getattr(r["obl"], "path", "") for r in rs],
               "solver": [{"part": p["id"], "status": p["status"], "reason": p.get("reason", ""),
                           "model": {k: v for k, v in (p.get("model") or {}).items()
                                     if k.startswith("probe!") or ("!" in k and not k.startswith("H"))}}
                          for r in rs for p in r["parts"] if p["status"] != "unsat"][:6],
               "native_replay": native, "failing_input": found_input,
               "how_to_replay": f"cd /verif && ./check.py {prop}   (native part: /venv/bin/python native/run.py < job.json)"}
        json.dump(doc, open(os.path.join(HERE, rpath), "w"), indent=1, default=str)
        if kf:
            continue      # handled below
        violations.append((oid, rpath, found_input))

    # ---- known findings: must still be reproduced; anything else under the same property is reported ----------
    for k in known_here:
        oid = k["obligation"]
        still = oid in by_clause or k.get("kind") == "bounded"
        if k.get("kind") != "bounded":
            if still:
                known_lines.append(f"KNOWN-FINDING: property={prop} {k['what']} [obligation {oid}]")
            # if it no longer reproduces the line disappears and nothing is suppressed

    # ---- open findings identified by a witness input: re-run the witness on the current tree ---------------------------
    witness_report = {}
    if known_wit:
        try:
            env = dict(os.environ)
            env["VERIF_REPO"] = native_root()
            p = subprocess.run(["/venv/bin/python", os.path.join(HERE, "witnesses", "run.py")] + [k["witness"] for k in known_wit],
                               capture_output=True, text=True, timeout=600, env=env, cwd=HERE)
            witness_report = json.loads(p.stdout)
        except Exception as e:  # noqa
            errors.append(f"witness runner failed: {type(e).__name__}: {e}")
        for k in known_wit:
            r = witness_report.get(k["witness"], {})
            if r.get("reproduces") is True:
                known_lines.append(f"KNOWN-FINDING: property={prop} {k['id']}: {k['what']} [witness {k['witness']}: {r.get('detail', '')[:200]}]")
            elif r.get("reproduces") is None and r:
                errors.append(f"witness {k['witness']}: {r.get('detail')}")
            # reproduces == False: the recorded defect is gone on this tree; nothing is printed and nothing suppressed

    # ---- native cross-check of contracts on random pre-states ---------------------------------------------------
    xjobs = []
    n_rand = 150 if tier == "quick" else 1500
    for c in contracts:
        if c.replay and not c.target.startswith("lemma::"):
            xjobs.append(contract_job(c, n_random=n_rand, seed=seed))
    xcheck = {"functions": 0, "evaluations": 0, "clauses": 0, "failures": 0, "skipped": []}
    xsamples = []
    if xjobs:
        try:
            xr = native_call(xjobs)
            for key, r in xr.items():
                c = REG.contracts[key]
                if r.get("skipped_unavailable") and not r["evaluated"]:
                    xcheck["skipped"].append(f"{c.name}: {r['skipped_unavailable']}")
                    continue
                xcheck["functions"] += 1
                xcheck["evaluations"] += r["evaluated"]
                xcheck["clauses"] += r["clauses_checked"]
                xsamples += r.get("samples", [])[:1]
                for e in r["errors"][:3]:
                    errors.append(f"native cross-check {c.name}: {e}")
                if r["failures"]:
                    xcheck["failures"] += len(r["failures"])
                    f0 = r["failures"][0]
                    oid = f"{c.name}/{f0['clause']}"
                    if any(k["obligation"] == oid for k in known_here):
                        continue
                    if oid in by_clause:
                        continue     # already reported via the solver
                    # the real code breaks a clause that the solver discharged: engine/model unsound OR float artefact
                    h = hashlib.sha256(("x" + oid).encode()).hexdigest()[:10]
                    rpath = os.path.join("replays", f"{prop}-x{h}.json")
                    json.dump({"property": prop, "obligation": oid, "native_failure": f0, "count": len(r["failures"]),
                               "note": "clause failed on the real code in the native cross-check"},
                              open(os.path.join(HERE, rpath), "w"), indent=1, default=str)
                    st = [x for x in all_results if x["obl"].id == oid]
                    if st and all(x["status"] == "unsat" for x in st):
                        errors.append(f"ENGINE DISAGREEMENT: {oid} discharged by the solver but failing natively on {f0['input']} ({f0['detail']})")
                    else:
                        violations.append((oid, rpath, f0["input"]))
        except Exception as e:  # noqa
            errors.append(f"native cross-check failed to run: {e}")

    # ---- bounded stand-ins ------------------------------------------------------------------------------------------
    bounded = []
    for b in meta.get("bounded", []):
        try:
            env = dict(os.environ)
            env["VERIF_REPO"] = native_root()
            env["VERIF_TIER"] = tier
            env["VERIF_SEED"] = str(seed)
            p = subprocess.run(["/venv/bin/python", os.path.join(HERE, "bounded", b["script"])] + b.get("args", []),
                               capture_output=True, text=True, timeout=b.get("timeout", 900 if tier == "quick" else 3600),
                               env=env, cwd=HERE)
            if p.returncode not in (0, 1):
                errors.append(f"bounded stand-in {b['script']} crashed: {p.stderr[-600:]}")
                continue
            jl = [ln for ln in p.stdout.splitlines() if ln.startswith("{")]
            doc = json.loads(jl[-1] if jl else p.stdout[p.stdout.index("{"):])
            bounded.append(doc)
            for f in doc.get("failures", []):
                oid = f"bounded:{b['script']}:{f['clause']}"
                kf = [k for k in known_here if k.get("kind") == "bounded" and k["obligation"] == oid
                      and (k.get("witness_key") is None or k.get("witness_key") == f.get("key"))]
                if kf:
                    known_lines.append(f"KNOWN-FINDING: property={prop} {kf[0]['what']} [bounded {oid}]")
                    continue
                h = hashlib.sha256((oid + str(f.get("key"))).encode()).hexdigest()[:10]
                rpath = os.path.join("replays", f"{prop}-b{h}.json")
                json.dump({"property": prop, "obligation": oid, "bounded_failure": f, "how_to_replay": f"VERIF_SEED={seed} VERIF_TIER={tier} /venv/bin/python bounded/{b['script']} " + " ".join(b.get("args", [])) + "   (or parse bounded_failure.input with scriptplan and evaluate the clause)"}, open(os.path.join(HERE, rpath), "w"),
                          indent=1, default=str)
                violations.append((oid, rpath, f.get("input", True)))
        except Exception as e:  # noqa
            errors.append(f"bounded stand-in {b['script']} failed to run: {type(e).__name__}: {e}")

    # ---- baseline writer (tools/make_baseline.py sets VERIF_WRITE_BASELINE=1; never during registered checks) --------
    if os.environ.get("VERIF_WRITE_BASELINE") == "1":
        os.makedirs(os.path.join(HERE, "baseline"), exist_ok=True)
        doc = {}
        for c in contracts:
            doc[c.key] = {"sha": gens[c.key]["function"]["source_sha"],
                          "discharged": sorted({r["obl"].id for r in all_results if r["contract"] is c and r["status"] == "unsat"})}
        json.dump(doc, open(base_path, "w"), indent=0)

    # ---- model validation: the ISO-calendar axioms used by the engine are compared with CPython on every run --------------
    model_validation = {}
    try:
        from pyvc import calendar as _cal
        model_validation["iso_calendar_axioms_days_checked_against_cpython_1970_2200"] = _cal.validate()
        from pyvc import strings as _strs
        model_validation["string_axioms_strings_checked_against_cpython"] = _strs.validate()
    except AssertionError as e:
        errors.append(f"calendar/string model disagrees with CPython: {e}")
    except Exception as e:  # noqa
        errors.append(f"calendar model validation failed to run: {e}")

    # ---- evidence ------------------------------------------------------------------------------------------------------
    wall = time.time() - t_start
    samples = []
    for r in all_results[:: max(1, len(all_results) // 8)][:8]:
        o = r["obl"]
        samples.append({"obligation": o.id, "path": getattr(o, "path", ""), "line": o.line, "clause": o.note[:160],
                        "status": "discharged" if r["status"] == "unsat" else r["status"],
                        "backend": r["backends"], "solver_s": round(r["time"], 3)})
    level = meta["level"]
    cov = {
        "obligations": n_obl, "discharged": n_dis,
        "checker_cmd": f"python3-vt check.py {prop} --tier {tier}  (pyvc: VCs from the AST of {source.repo_root()} + z3 {z3.get_version_string()}, cvc5 on unknown)",
        "trusted_base": trusted + meta.get("trusted_base", []) + ASSUMPTIONS,
        "samples": samples,
        "functions_under_contract": functions,
        "backends": backends,
        "solver_seconds": round(solver_time, 2),
        "refuted": sorted(by_clause.keys()),
        "undecided": undecided[:40],
        "checker_errors": errors[:20],
        "canary": canary,
        "second_backend_cvc5_recheck_of_discharged": second if tier == "thorough" else "thorough tier only",
        "path_cover": cover,
        "contract_results_reused_from_cache": cache_hits,
        "known_findings_confirmed": known_lines,
        "known_finding_witnesses": witness_report,
        "model_validation": model_validation,
        "native_tree": {k: v for k, v in NATIVE_INFO.items()},
        "engine_cross_check": {**xcheck, "samples": xsamples[:3]},
        "bounded_standins": [{k: v for k, v in b.items() if k != "failures"} | {"failures": len(b.get("failures", []))}
                             for b in bounded],
        "explanation": meta.get("explanation") or _level_text(prop),
        "evaluations": max(1, n_obl),
        "distinct_nontrivial": max(2, len({r["obl"].id for r in all_results})),
        "rule": "one evaluation = one verification condition generated from the current source; distinct = distinct clause ids (paths of one clause counted once)",
    }
    ev = {"property_id": prop, "tier": tier, "seed": seed, "level": level, "coverage": cov,
          "assumptions": meta.get("assumptions", []) + ASSUMPTIONS, "wall_s": round(wall, 2),
          "violations": len(violations)}
    # a run against a scratch copy (VERIF_REPO, used by tools/try_patch.sh) must not overwrite the evidence of /repo
    scratch = os.path.realpath(source.repo_root()) != os.path.realpath("/repo")
    evdir = os.path.join(HERE, ".scratch_evidence" if scratch else "evidence")
    os.makedirs(evdir, exist_ok=True)
    json.dump(ev, open(os.path.join(evdir, f"{prop}.json"), "w"), indent=1, default=str)

    # ---- report -----------------------------------------------------------------------------------------------------------
    print(f"[{prop}/{tier}] contracts={len(contracts)} obligations={n_obl} discharged={n_dis} refuted-clauses={len(by_clause)} "
          f"undecided={len(undecided)} errors={len(errors)} cross-check={xcheck['evaluations']} evals/{xcheck['failures']} failures "
          f"bounded={len(bounded)} wall={wall:.1f}s")
    for ln in known_lines:
        print(ln)
    for u in undecided[:30]:
        print("UNDECIDED", u)
    for e in errors[:30]:
        print("CHECKER-ERROR", e)
    for oid, rpath, found in violations:
        print(f"VIOLATION property={prop} replay={rpath}" + ("" if found else " no-failing-input-found"))
        print(f"   obligation: {oid}")
    solve_pool_close()
    if violations:
        sys.exit(1)
    if errors:
        sys.exit(3)
    if undecided:
        sys.exit(2)
    sys.exit(0)


def solve_pool_close():
    try:
        if solve._pool is not None:
            solve._pool.terminate()
    except Exception:
        pass


if __name__ == "__main__":
    main()
