"""Call evaluation: builtins, datetime API, container methods, contract calls, spec forms."""
from __future__ import annotations
import ast
import z3
from . import types as T
from .types import V, Obj
from .engine import (Unsupported, REG, to_real, real_trunc, real_floor, real_ceil, py_round,
                     INT32_MIN, INT32_MAX)


def _kw(node, name, default=None):
    for k in node.keywords:
        if k.arg == name:
            return k.value
    return default


def eval_call(ex, node: ast.Call, st):
    f = node.func
    txt = ast.unparse(f)

    # ---- static duck-typing tests -------------------------------------------
    if isinstance(f, ast.Name) and f.id in ("hasattr", "isinstance", "callable"):
        key = ast.unparse(node)
        if key in ex.c.static:
            return T.mk_bool(bool(ex.c.static[key]))
        if f.id == "isinstance":
            v = ex.ev(node.args[0], st)
            cls = ast.unparse(node.args[1])
            vi = T.opt_inner(v)
            if isinstance(vi.ty, T.Ref):
                dyn = REG.classes.get(vi.ty.cls, {}).get("isinstance", {}).get(cls)
                if dyn is not None:
                    r = ex.spec_eval(st, dyn, {"self": vi})
                    if isinstance(v.ty, T.Opt):
                        return T.mk_bool(z3.And(z3.Not(v.terms[0]), r.t))
                    return r
            r = _static_isinstance(v, cls)
            if r is not None:
                return T.mk_bool(r)
        if f.id == "hasattr":
            v = ex.ev(node.args[0], st)
            an = node.args[1].value if isinstance(node.args[1], ast.Constant) else None
            if isinstance(v.ty, T.Ref) and an:
                cl = REG.classes.get(v.ty.cls, {})
                dynh = cl.get("hasattr", {}).get(an)
                if dynh is not None:
                    return ex.spec_eval(st, dynh, {"self": v})
                if an in cl.get("has", ()):
                    return T.mk_bool(True)
                if an in cl.get("hasnot", ()):
                    return T.mk_bool(False)
        raise Unsupported(f"duck-typing test `{key}` not resolved by contract.static", node)

    # ---- spec-only forms ------------------------------------------------------
    if ex.spec and isinstance(f, ast.Name):
        r = _spec_form(ex, f.id, node, st)
        if r is not None:
            return r

    # ---- application of a callable parameter (assumed pure) ---------------------
    if isinstance(f, ast.Name) and f.id in st.env and isinstance(st.env[f.id].ty, T.Fn):
        fv = st.env[f.id]
        args = []
        for a, aty in zip(node.args, fv.ty.args):
            args += T.coerce(ex.ev(a, st), aty).terms
        return V(fv.ty.ret, [fv.fn(*args)])

    # ---- contract-directed resolution ----------------------------------------
    res = _lookup_call(ex, txt, f)
    if res is not None:
        if res[0] == "check":
            # ("check", [(label, spec-src)], inner-directive-or-None): assertion contract at a call site,
            # evaluated in the caller's current environment before the call
            for lab, src in res[1]:
                g = ex.spec_bool(st, src, dict(st.env), old_state=ex.entry_state)
                ex.oblige(st, "site", f"{txt}.{lab}@{node.lineno}", g, node, src)
            if len(res) > 2 and res[2]:
                return _apply_directive(ex, res[2], node, st, txt)
            saved = ex.c.calls
            ex.c.calls = {k: v for k, v in saved.items() if k != txt}
            try:
                return eval_call(ex, node, st)
            finally:
                ex.c.calls = saved
        return _apply_directive(ex, res, node, st, txt)

    # ---- builtins -------------------------------------------------------------
    if isinstance(f, ast.Name):
        r = _builtin(ex, f.id, node, st)
        if r is not None:
            return r
        nested = getattr(ex, "nested", {})
        if f.id in nested:
            return _inline_nested(ex, nested[f.id], [ex.ev(a, st) for a in node.args], st, node)
    if isinstance(f, ast.Attribute):
        try:
            r = _method(ex, f, node, st)
        except Unsupported:
            r = _auto_contract(ex, f, node, st)
            if r is None:
                raise
        if r is not None:
            return r
        r = _auto_contract(ex, f, node, st)
        if r is not None:
            return r
    raise Unsupported(f"call `{txt}` has no contract, model or builtin semantics", node)


def _auto_contract(ex, f, node, st):
    """A method call with no directive in the caller's contract: when the receiver is an object of class C and a
    (non-lemma) contract for C.<method> is loaded, the call is checked against that contract -- so an edit that
    introduces a call of an already specified method stays within reach."""
    try:
        recv = ex.ev(f.value, st)
    except Unsupported:
        return None
    ty = T.opt_inner(recv).ty if isinstance(recv.ty, T.Opt) else recv.ty
    if not isinstance(ty, T.Ref):
        return None
    suffix = f"::{ty.cls}.{f.attr}"
    cands = [c for c in REG.contracts.values() if c.target.endswith(suffix) and not c.client_src]
    if not cands:
        return None
    cands.sort(key=lambda c: (c.variant is not None and c.variant not in ("py",), c.key))
    c = cands[0]
    ex.auto_calls = getattr(ex, "auto_calls", set())
    ex.auto_calls.add(c.key)
    return _call_contract(ex, c.key, node, st, recv)


def _inline_nested(ex, fdef, argv, st, node):
    """Inline a nested (closure) function that has no side effects: evaluate its body on a copy of the state and
    join the returned values."""
    st2 = st.fork()
    names = [a.arg for a in fdef.args.args]
    if len(names) != len(argv):
        raise Unsupported(f"nested function {fdef.name}: arity", node)
    for n, v in zip(names, argv):
        st2.env[n] = v
    heap0 = dict(st2.heap)
    n0 = len(st2.pc)
    outs = ex.run_block(fdef.body, st2)
    res = None
    for o in outs:
        if o.kind != "return":
            raise Unsupported(f"nested function {fdef.name} does not simply return", node)
        if set(o.st.heap) != set(heap0) or any(not o.st.heap[k].eq(heap0[k]) for k in heap0):
            raise Unsupported(f"nested function {fdef.name} writes the heap", node)
        cond = z3.And(*o.st.pc[n0:]) if len(o.st.pc) > n0 else z3.BoolVal(True)
        res = o.val if res is None else T.ite(cond, o.val, res)
    return res


def _static_isinstance(v, cls):
    ty = v.ty
    inner = ty.t if isinstance(ty, T.Opt) else ty
    table = {
        "int": (T.Int,), "float": (T.Real,), "str": (T.Str,), "bool": (T.Bool,),
        "(int, float)": (T.Int, T.Real), "dict": None, "list": None,
    }
    if cls in ("dict",):
        return isinstance(inner, T.Dict)
    if cls in ("list",):
        return isinstance(inner, T.List)
    if cls in ("tuple",):
        return isinstance(inner, T.Tuple)
    if cls in table and table[cls]:
        if isinstance(ty, T.Opt):
            return None
        if ty is T.Bool and cls == "int":
            return True
        return inner in table[cls]
    if cls == "str" and isinstance(inner, (T.Ref, T.List, T.Dict)) or cls == "str" and inner in (T.Int, T.Real, T.DT):
        return False
    return None


# -----------------------------------------------------------------------------
def _lookup_call(ex, txt, f):
    calls = ex.c.calls
    if txt in calls:
        return calls[txt]
    if isinstance(f, ast.Attribute) and ("*." + f.attr) in calls:
        return calls["*." + f.attr]
    return None


def _bind_args(ex, node, st, params, defaults, recv=None):
    """Bind positional/keyword args to callee parameter names. Returns dict name->V."""
    names = list(params.keys())
    binds = {}
    i = 0
    if recv is not None and names and names[0] == "self":
        binds["self"] = _coerce_arg(ex, st, recv, params["self"], "self", node)
        i = 1
    for a in node.args:
        if isinstance(a, ast.Starred):
            raise Unsupported("star args", node)
        if i >= len(names):
            raise Unsupported("too many args for contract", node)
        binds[names[i]] = _coerce_arg(ex, st, ex.ev(a, st), params[names[i]], names[i], node)
        i += 1
    for k in node.keywords:
        if k.arg is None or k.arg not in params:
            raise Unsupported(f"keyword {k.arg}", node)
        binds[k.arg] = _coerce_arg(ex, st, ex.ev(k.value, st), params[k.arg], k.arg, node)
    for n in names:
        if n not in binds:
            if n in defaults:
                binds[n] = T.coerce(ex.lift_const(defaults[n]), params[n])
            else:
                raise Unsupported(f"missing arg {n}", node)
    return binds


def _coerce_arg(ex, st, v, ty, name, node):
    if isinstance(v.ty, T.Opt) and not isinstance(ty, T.Opt) and ty is not T.NoneT:
        ex.oblige(st, "pre", f"arg-not-None({name})@{node.lineno}", z3.Not(v.terms[0]), node,
                  f"argument {name} must not be None")
        v = T.opt_inner(v)
    return T.coerce(v, ty)


def _apply_directive(ex, d, node, st, txt):
    kind = d[0]
    f = node.func
    recv = None
    if isinstance(f, ast.Attribute):
        try:
            recv = ex.ev(f.value, st)
        except Unsupported:
            recv = None
    if kind == "ignore":
        for a in node.args:
            try:
                ex.ev(a, st)
            except Unsupported:
                pass
        return T.NONE
    if kind == "const":
        return ex.lift_const(d[1])
    if kind == "spec":
        # ("spec", [param names], "expr")  -- definitional model of the callee, listed as assumption
        pnames, src = d[1], d[2]
        binds = {}
        args = [ex.ev(a, st) for a in node.args]
        i = 0
        if pnames and pnames[0] == "self":
            if recv is None:
                raise Unsupported("spec call without receiver", node)
            if isinstance(recv.ty, T.Opt):
                if not ex.spec:
                    ex.oblige(st, "safety", f"none-call.{txt}@{node.lineno}", z3.Not(recv.terms[0]), node,
                              "method call on None raises AttributeError")
                recv = T.opt_inner(recv)
            binds["self"] = recv
            i = 1
        for a in args:
            binds[pnames[i]] = a
            i += 1
        for k in node.keywords:
            binds[k.arg] = ex.ev(k.value, st)
        for extra in d[3:] and d[3] or {}:
            pass
        if len(d) > 3:
            for n, c in d[3].items():
                binds.setdefault(n, ex.lift_const(c))
        return ex.spec_eval(st, src, binds)
    if kind == "pure":
        # ("pure", ret_ty, [heap keys read]) -> uninterpreted function of args (+receiver, +heap versions)
        ret = d[1]
        reads = d[2] if len(d) > 2 else []
        args = []
        if recv is not None:
            args += [t for t in T.opt_inner(recv).terms]
        for a in node.args:
            args += ex.ev(a, st).terms
        for k in node.keywords:
            args += ex.ev(k.value, st).terms
        for key in reads:
            args.append(_heap_version(ex, st, key))
        name = "pure!" + (f.attr if isinstance(f, ast.Attribute) else txt)
        outs = []
        for j, s in enumerate(ret.sorts()):
            if args:
                fn = z3.Function(f"{name}#{j}", *[a.sort() for a in args], s)
                outs.append(fn(*args))
            else:
                outs.append(z3.Const(f"{name}#{j}", s))
        return V(ret, outs)
    if kind == "havoc":
        ret = d[1]
        for key in expand_keys(d[2] if len(d) > 2 else []):
            _havoc_key(ex, st, key)
        return T.fresh(ret, "hv") if ret is not T.NoneT else T.NONE
    if kind == "contract":
        return _call_contract(ex, d[1], node, st, recv)
    if kind == "new":
        # ("new", cls, [field names in constructor-argument order]) -- plain record constructor
        cls, fields = d[1], d[2]
        o = ex.new_obj(st, cls)
        for fname, a in zip(fields, node.args):
            fk = REG.field_key(fname, cls)
            ex.h.set_field(st, o, fk[0], fk[1], ex.ev(a, st))
        return V(T.Ref(cls), [o])
    if kind == "construct":
        # ("construct", cls, contract-key of __init__): allocate a fresh object, then the constructor's contract
        cls, ckey = d[1], d[2]
        o = ex.new_obj(st, cls)
        return_self = V(T.Ref(cls), [o])
        _call_contract(ex, ckey, node, st, return_self)
        return return_self
    if kind == "pyfunc":
        return d[1](ex, node, st, recv)
    if kind == "keyfield":
        # recv.get("key"[, default]) on a str-keyed record (e.g. Project.attributes): constant key -> field <cls>.<key>
        cls = d[1]
        a0 = node.args[0]
        if not (isinstance(a0, ast.Constant) and isinstance(a0.value, str)):
            raise Unsupported("record key must be a literal", node)
        fk = REG.field_key(a0.value, cls)
        if fk is None:
            raise Unsupported(f"record key {cls}.{a0.value} has no declared type", node)
        r = T.opt_inner(recv)
        return ex.h.get_field(st, r.t, fk[0], fk[1])
    if kind == "attrget":
        # node.get("name", scIdx) on property tree nodes
        return _attr_get(ex, node, st, recv)
    raise Unsupported(f"unknown call directive {kind}", node)


def _heap_version(ex, st, key):
    # key "field#k" / "@attr#k" / "$len" ... ; unknown keys are created lazily with declared sorts
    if key in st.heap:
        return st.heap[key]
    sort = _key_sort(key)
    return z3.Const("H0!" + key, sort)


def _key_sort(key):
    from .engine import _arr_sort
    if key.startswith("$"):
        return _container_key_sort(key)
    base, k = key.rsplit("#", 1) if "#" in key else (key, "0")
    k = int(k)
    if base.startswith("@"):
        ty = REG.attrs[base[1:]]
        return _arr_sort([Obj, z3.IntSort()], ty.sorts()[k])
    ty = REG.field_ty(base)
    if ty is None:
        raise Unsupported(f"unknown heap key {key}")
    return _arr_sort([Obj], ty.sorts()[k])


def _container_key_sort(key):
    from .engine import _arr_sort
    kind, rest = key.split("@", 1)
    region = rest.split(":", 1)[0]
    ty = T.REGIONS.get(region)
    if ty is None:
        raise Unsupported(f"unknown container region {region!r} in heap key {key}")
    if kind == "$len":
        return _arr_sort([Obj], z3.IntSort())
    k = int(key.rsplit("#", 1)[1]) if "#" in key else 0
    if kind == "$e":
        return _arr_sort([Obj, z3.IntSort()], ty.t.sorts()[k])
    if kind == "$sum":
        return _arr_sort([Obj], z3.RealSort())
    ks = ty.k.sorts()[0]
    if kind == "$dom":
        return _arr_sort([Obj, ks], z3.BoolSort())
    if kind == "$dv":
        return _arr_sort([Obj, ks], ty.v.sorts()[k])
    raise Unsupported(f"heap key {key}")


def expand_keys(names):
    """'Cls.field' -> its component arrays; '@attr' likewise; '$region:<region>' -> every array of that
    container region (and of the regions nested in it)."""
    out = []
    for n in names:
        if n.startswith("$region:"):
            reg = n[len("$region:"):]
            found = False
            for r, ty in T.REGIONS.items():
                if r == reg or r.startswith(reg + "."):
                    out += ty.all_keys()
                    found = True
            if not found:
                raise Unsupported(f"unknown container region {reg}")
            continue
        if "#" in n or n.startswith("$len@"):
            out.append(n)
            continue
        if n.startswith("@"):
            ty = REG.attrs[n[1:]]
            out += [f"{n}#{k}" for k in range(len(ty.sorts()))]
        elif n.startswith("$"):
            out.append(n)
        else:
            ty = REG.field_ty(n)
            if ty is None:
                raise Unsupported(f"unknown field {n} in modifies/reads")
            out += [f"{n}#{k}" for k in range(len(ty.sorts()))]
    return out


def _havoc_key(ex, st, key):
    from .engine import born_before
    ex.bump(st)
    sort = st.heap[key].sort() if key in st.heap else _key_sort(key)
    st.heap[key] = z3.Const(T.fresh_name("H!" + key), sort)
    n1 = ex.advance_time(st)
    bb = born_before(st.heap[key], n1)
    if bb is not None:
        st.born.append(bb)


def _call_contract(ex, target, node, st, recv):
    c = REG.contracts.get(target)
    if c is None:
        raise Unsupported(f"callee contract {target} not loaded", node)
    binds = _bind_args(ex, node, st, c.params, c.defaults, recv)
    label = c.name
    ex.calls_seen[label] = ex.calls_seen.get(label, 0) + 1
    # 1. preconditions are obligations of the caller
    for lab, src in c.requires:
        g = ex.spec_bool(st, src, binds)
        ex.oblige(st, "pre", f"{label}.{lab}@{node.lineno}", g, node, f"precondition of {target}: {src}")
    pre = st.fork()
    # 2. frame: havoc what the callee may modify
    from . import frame as _frame
    _frame.havoc(ex, st, _frame.resolve(ex, pre, c.modifies, binds))
    # 3. result
    ret_ty = c.ret if c.ret is not None else T.NoneT
    res = T.fresh(ret_ty, "ret." + label) if ret_ty is not T.NoneT else T.NONE
    # 4. exceptional behaviour
    raise_conds = []
    for exc, src in c.raises.items():
        cond = ex.spec_bool(pre, src, binds)
        # what the callee guarantees when it leaves by an exception (its `on_raise` clauses)
        extra = [ex.spec_bool(st, s2, binds, old_state=pre) for _l, s2 in c.on_raise]
        st.pending.append((z3.And(*(st.guards + [cond])) if st.guards else cond, exc, extra))
        raise_conds.append(cond)
    for exc in c.may_raise:
        # may fail for reasons outside the model: a non-deterministic choice
        cond = z3.Bool(T.fresh_name("fails." + label))
        extra = [ex.spec_bool(st, s2, binds, old_state=pre) for _l, s2 in c.on_raise]
        st.pending.append((z3.And(*(st.guards + [cond])) if st.guards else cond, exc, extra))
        raise_conds.append(cond)
    # 5. assume postconditions (on the non-raising continuation)
    for lab, src in c.ensures:
        p = ex.spec_bool(st, src, binds, result=res, old_state=pre)
        if raise_conds:
            p = z3.Implies(z3.Not(z3.Or(*raise_conds)), p)
        if st.guards:
            p = z3.Implies(z3.And(*st.guards), p)
        st.pc.append(p)
    return res


def _attr_get(ex, node, st, recv):
    if recv is None:
        raise Unsupported("attribute get without receiver", node)
    recv0 = recv
    if isinstance(recv.ty, T.Opt):
        if not ex.spec:
            ex.oblige(st, "safety", f"none-call.get@{node.lineno}", z3.Not(recv.terms[0]), node)
        recv = T.opt_inner(recv)
    a0 = node.args[0]
    if not (isinstance(a0, ast.Constant) and isinstance(a0.value, str)):
        raise Unsupported("attribute name must be a literal", node)
    name = a0.value
    ty = REG.attrs.get(name)
    if ty is None:
        raise Unsupported(f"attribute '{name}' has no declared type", node)
    if len(node.args) > 1:
        sc = ex.ev(node.args[1], st)
        scv = sc.t
    else:
        scv = z3.IntVal(-1)
    return ex.h.get_attr(st, recv.t, name, scv, ty)


# -----------------------------------------------------------------------------
def _spec_form(ex, name, node, st):
    if name == "old":
        if ex.old_env is None:
            raise Unsupported("old() outside a postcondition", node)
        o = ex.old_env
        st2 = st.fork()
        st2.heap = dict(o.heap)
        st2.epoch = o.epoch
        # the heap is rewound, and parameters denote their ENTRY values (a parameter may be reassigned in the body);
        # other names (locals, bound variables, result) keep their current meaning
        env0 = getattr(o, "env", None) or {}
        pnames = set(getattr(ex.c, "params", {}) or {})
        if env0 and pnames and o is getattr(ex, "entry_state", None):     # (not for a callee's clause at a call site)
            st2.env = dict(st2.env)
            for n in pnames:
                if n in env0 and n in st2.env:
                    st2.env[n] = env0[n]
        return ex.ev(node.args[0], st2)
    if name == "implies":
        a = ex.truthy(st, ex.ev(node.args[0], st))
        b = ex.truthy(st, ex.ev(node.args[1], st))
        return T.mk_bool(z3.Implies(a, b))
    if name == "iff":
        a = ex.truthy(st, ex.ev(node.args[0], st))
        b = ex.truthy(st, ex.ev(node.args[1], st))
        return T.mk_bool(a == b)
    if name in ("forall", "exists"):
        # forall(x, body) | forall(x, lo, hi, body)  -- x: Int ;  forall(x, "Ref:Cls", body)
        var = node.args[0].id
        ty = T.Int
        rng = None
        if len(node.args) == 4:
            lo = ex.ev(node.args[1], st).t
            hi = ex.ev(node.args[2], st).t
            rng = (lo, hi)
        elif len(node.args) == 3:
            spec = node.args[1].value
            ty = parse_ty(spec)
        bv = T.fresh(ty, "q_" + var)
        st2 = st.fork()
        st2.env[var] = bv
        body = ex.truthy(st2, ex.ev(node.args[-1], st2))
        if rng is not None:
            guard = z3.And(rng[0] <= bv.t, bv.t < rng[1])
            body = z3.Implies(guard, body) if name == "forall" else z3.And(guard, body)
        q = z3.ForAll(bv.terms, body) if name == "forall" else z3.Exists(bv.terms, body)
        return T.mk_bool(q)
    if name == "seqsum":
        lv = ex.ev(node.args[0], st)
        k = node.args[1].value if len(node.args) > 1 else 0
        lv = T.opt_inner(lv)
        return T.mk_real(ex.h.list_sum(st, lv.ty, lv.t, k))
    if name == "isint":
        v = ex.ev(node.args[0], st)
        x = z3.simplify(v.t)
        return T.mk_bool(z3.BoolVal(True) if _syn_integral(x) else z3.IsInt(x))
    if name == "floor":
        v = ex.ev(node.args[0], st)
        return T.mk_int(real_floor(to_real(ex.num(v)) if v.ty in (T.Int, T.Real) else v.t))
    if name == "secs":      # seconds of a DT/TD as a real
        v = ex.ev(node.args[0], st)
        return T.mk_real(T.opt_inner(v).t)
    if name == "dt":        # real seconds -> DT
        v = ex.ev(node.args[0], st)
        return V(T.DT, [to_real(v.t)])
    if name == "td":
        v = ex.ev(node.args[0], st)
        return V(T.TD, [to_real(v.t)])
    if name == "isnone":
        return T.mk_bool(T.opt_isnone(ex.ev(node.args[0], st)))
    if name == "some":      # inner value of an optional (spec only, no obligation)
        return T.opt_inner(ex.ev(node.args[0], st))
    if name == "attr":      # attr(node, "name", sc)
        o = T.opt_inner(ex.ev(node.args[0], st))
        nm = node.args[1].value
        sc = ex.ev(node.args[2], st).t if len(node.args) > 2 else z3.IntVal(-1)
        return ex.h.get_attr(st, o.t, nm, sc, REG.attrs[nm])
    if name == "ite":
        c = ex.truthy(st, ex.ev(node.args[0], st))
        return T.ite(c, ex.ev(node.args[1], st), ex.ev(node.args[2], st))
    if name == "tdiv":
        from .engine import c_div
        return T.mk_int(c_div(ex.ev(node.args[0], st).t, ex.ev(node.args[1], st).t))
    if name == "trunc":
        v = ex.ev(node.args[0], st)
        return T.mk_int(real_trunc(to_real(v.t)))
    if name == "app":       # app(fn, args...) application of a Fn value
        fv = ex.ev(node.args[0], st)
        args = []
        for a in node.args[1:]:
            args += ex.ev(a, st).terms
        return V(fv.ty.ret, [fv.fn(*args)])
    if name == "nondet":
        return T.mk_bool(z3.Bool(T.fresh_name("nondet")))
    if name == "isfresh":
        # the object was allocated during the call (not reachable in the pre-state)
        from .engine import PRE_ALLOC
        v = T.opt_inner(ex.ev(node.args[0], st))
        return T.mk_bool(z3.Not(PRE_ALLOC(v.t)))
    if name == "anc":
        # anc(x, k): the (k+1)-th ancestor of tree node x (k = 0: parent), None beyond the root
        x = T.opt_inner(ex.ev(node.args[0], st))
        k = ex.ev(node.args[1], st)
        fn_none = z3.Function("anc_none", Obj, z3.IntSort(), z3.BoolSort())
        fn_obj = z3.Function("anc_obj", Obj, z3.IntSort(), Obj)
        return V(T.Opt(x.ty), [fn_none(x.t, k.t), fn_obj(x.t, k.t)])
    if name.startswith("uf_"):
        ret = UF_RET.get(name, T.Real)
        args = []
        for a in node.args:
            args += T.opt_inner(ex.ev(a, st)).terms
        srts = ret.sorts()
        if len(srts) == 1:
            fn = z3.Function(name, *[a.sort() for a in args], srts[0])
            return V(ret, [fn(*args)])
        return V(ret, [z3.Function(f"{name}#{j}", *[a.sort() for a in args], s_)(*args) for j, s_ in enumerate(srts)])
    if ((name in REG.opaque and name not in ex.c.reveal) or name in ex.c.hide) and not getattr(ex, "_tracing_reads", False):
        # opaque ghost function: uninterpreted in (arguments, the heap arrays its definition reads)
        hid = ex.c.hide.get(name)
        ptypes = getattr(REG, "opaque_types", {}).get(name)
        if isinstance(hid, tuple):
            ret, ptypes = hid
        else:
            ret = hid or REG.opaque[name]
        argv = [ex.ev(a, st) for a in node.args]
        if ptypes:
            argv = [T.coerce(T.opt_inner(a) if not isinstance(t, T.Opt) else a, t) for a, t in zip(argv, ptypes)]
        reads = _opaque_reads(ex, name, argv, st)
        args = []
        for a in argv:
            args += a.terms
        for key, (doms, rng) in reads:
            args.append(ex.h.arr(st, key, list(doms), rng))
        fn = z3.Function("opq_" + name, *[a.sort() for a in args], ret.sorts()[0])
        return V(ret, [fn(*args)])
    if name in REG.ghost:
        params, src = REG.ghost[name]
        if len(params) != len(node.args):
            raise Unsupported(f"ghost {name} arity", node)
        binds = {p: ex.ev(a, st) for p, a in zip(params, node.args)}
        st2 = st.fork()
        st2.env = binds
        tree = ast.parse(src.strip(), mode="eval").body
        return ex.ev(tree, st2)
    return None


def _syn_integral(e):
    """Syntactic sufficient test that a real term denotes an integer."""
    if z3.is_int(e):
        return True
    if z3.is_rational_value(e):
        return e.denominator_as_long() == 1
    if z3.is_app(e):
        k = e.decl().kind()
        if k == z3.Z3_OP_TO_REAL:
            return True
        if k in (z3.Z3_OP_ADD, z3.Z3_OP_SUB, z3.Z3_OP_MUL, z3.Z3_OP_UMINUS):
            return all(_syn_integral(c) for c in e.children())
    return False


_OPAQUE_READS = {}


def _opaque_reads(ex, name, argv, st):
    """Heap arrays read by the definition of an opaque ghost function (computed once per function by evaluating
    its body with everything revealed and recording the arrays touched)."""
    if name in _OPAQUE_READS:
        return _OPAQUE_READS[name]
    declared = getattr(REG, "opaque_reads", {}).get(name)
    if declared is not None:
        from .engine import _arr_sort
        reads = []
        for key in expand_keys(declared):
            srt = _key_sort(key)
            doms = []
            cur = srt
            while isinstance(cur, z3.ArraySortRef):
                doms.append(cur.domain())
                cur = cur.range()
            reads.append((key, (tuple(doms), cur)))
        _OPAQUE_READS[name] = reads
        return reads
    params, src = REG.ghost[name]
    st2 = st.fork()
    st2.env = {p: a for p, a in zip(params, argv)}
    saved_trace, saved_flag, saved_obls = ex.h.trace, getattr(ex, "_tracing_reads", False), len(ex.obls)
    ex.h.trace = {}
    ex._tracing_reads = True
    try:
        ex.ev(ast.parse(src.strip(), mode="eval").body, st2)
        reads = sorted(ex.h.trace.items())
    finally:
        ex.h.trace, ex._tracing_reads = saved_trace, saved_flag
        del ex.obls[saved_obls:]
    _OPAQUE_READS[name] = reads
    return reads


UF_RET = {"uf_scen_specific": T.Bool, "uf_node_get": T.Ref("Value"), "uf_report_attr": T.Opt(T.Str), "uf_strftime": T.Str, "uf_str_dt": T.Str, "uf_isWorkingTime": T.Bool, "uf_tzoff": T.Real, "uf_sbidx": T.Int, "uf_minsum": T.Int, "uf_dur": T.Real, "uf_lower": T.Str, "uf_path_of": T.Ref("Path"), "uf_os": T.Ref("OS"), "uf_bytes_of": T.Str, "uf_text_of": T.Str, "uf_sha256": T.Str, "uf_json_report_id": T.Str, "uf_encode": T.Str, "uf_bangs": T.Int, "uf_nobang": T.Str, "uf_tzvalid": T.Bool,
          "uf_split": T.List(T.Str, region="strparts"), "uf_walk": T.Ref("Task"), "uf_walkok": T.Bool, "uf_inherited": T.Bool}


def parse_ty(spec: str):
    spec = spec.strip()
    if spec.startswith("Ref:"):
        return T.Ref(spec[4:])
    return {"Int": T.Int, "Real": T.Real, "Bool": T.Bool, "DT": T.DT, "Str": T.Str}[spec]


# -----------------------------------------------------------------------------
def _builtin(ex, name, node, st):
    args = node.args
    if name in ("max", "min"):
        vals = [ex.ev(a, st) for a in args]
        if len(vals) == 1 and isinstance(T.opt_inner(vals[0]).ty if isinstance(vals[0].ty, T.Opt) else vals[0].ty, T.List) \
                and (vals[0].ty.t if isinstance(vals[0].ty, T.List) else None) in (T.DT, T.TD, T.Int, T.Real):
            # max(xs) / min(xs) of a list of numbers or dates: an element of xs that bounds all others
            # (ValueError on an empty list is a safety obligation)
            lv = vals[0]
            n = ex.h.list_len(st, lv.t, lv.ty)
            if not ex.spec:
                ex.oblige(st, "safety", f"{name}-of-empty@{node.lineno}", n > 0, node, f"{name}() of an empty list raises ValueError")
            r = T.fresh(lv.ty.t, f"{name}.of.list")
            k = z3.Int(T.fresh_name("mk"))
            ek = ex.h.list_get(st, lv.ty, lv.t, k)
            rel = (r.t >= ek.t) if name == "max" else (r.t <= ek.t)
            st.pc.append(z3.ForAll([k], z3.Implies(z3.And(k >= 0, k < n), rel)))
            w = z3.Int(T.fresh_name("mw"))
            st.pc.append(z3.And(w >= 0, w < n, ex.h.list_get(st, lv.ty, lv.t, w).t == r.t))
            return r
        if len(vals) < 2:
            raise Unsupported(f"{name} of iterable", node)
        res = vals[0]
        for v in vals[1:]:
            if res.ty in (T.DT, T.TD) and v.ty == res.ty:
                c = (res.t >= v.t) if name == "max" else (res.t <= v.t)
            else:
                x, y = ex.num(res), ex.num(v)
                if not (z3.is_int(x) and z3.is_int(y)):
                    x, y = to_real(x), to_real(y)
                    res, v = T.mk_real(x), T.mk_real(y)
                c = (x >= y) if name == "max" else (x <= y)
            res = T.ite(c, res, v)
        return res
    if name == "int":
        v = ex.ev(args[0], st)
        if v.ty is T.Int:
            return T.mk_int(v.t)
        if v.ty is T.Bool:
            return T.mk_int(z3.If(v.t, 1, 0))
        if v.ty is T.Real:
            return T.mk_int(real_trunc(v.t))
        raise Unsupported(f"int() of {v.ty}", node)
    if name == "float":
        v = ex.ev(args[0], st)
        if v.ty in (T.Int, T.Real, T.Bool):
            return T.mk_real(ex.num(v))
        raise Unsupported(f"float() of {v.ty}", node)
    if name == "bool":
        return T.mk_bool(ex.truthy(st, ex.ev(args[0], st)))
    if name == "round" and len(args) == 1:
        v = ex.ev(args[0], st)
        return T.mk_int(py_round(ex.num(v)))
    if name == "abs":
        v = ex.ev(args[0], st)
        x = ex.num(v)
        return V(v.ty, [z3.If(x >= 0, x, -x)])
    if name == "len":
        v = T.opt_inner(ex.ev(args[0], st))
        if isinstance(v.ty, T.List):
            return T.mk_int(ex.h.list_len(st, v.t, v.ty), cint=bool(ex.c.cython))
        if isinstance(v.ty, T.Tuple):
            return T.mk_int(len(v.ty.ts))
        if isinstance(v.ty, T.Ref):
            ln = REG.classes.get(v.ty.cls, {}).get("len")
            if ln:
                return ex.spec_eval(st, ln, {"self": v})
        raise Unsupported(f"len() of {v.ty}", node)
    if name == "timedelta":
        tot = z3.RealVal(0)
        units = {"days": 86400, "seconds": 1, "hours": 3600, "minutes": 60, "weeks": 604800}
        if args:
            tot = tot + to_real(ex.num(ex.ev(args[0], st))) * 86400
            if len(args) > 1:
                tot = tot + to_real(ex.num(ex.ev(args[1], st)))
        for k in node.keywords:
            if k.arg not in units:
                raise Unsupported(f"timedelta({k.arg}=)", node)
            tot = tot + to_real(ex.num(ex.ev(k.value, st))) * units[k.arg]
        return V(T.TD, [z3.simplify(tot)])
    if name == "cast":        # typing.cast(T, x)
        return ex.ev(args[1], st)
    if name == "getattr" and len(args) >= 2 and isinstance(args[1], ast.Constant):
        # getattr(obj, "name"[, default]) on an object whose class declares the field (set in __init__)
        base = ex.ev(args[0], st)
        return ex.get_attribute(base, args[1].value, st, node)
    if name == "str":
        return T.fresh(T.Str, "str")
    if name in ("all", "any") and len(args) == 1 and isinstance(args[0], ast.GeneratorExp):
        return _quant_genexp(ex, name, args[0], node, st)
    if name == "list" and len(args) == 1:
        v = ex.ev(args[0], st)
        if isinstance(v.ty, T.Ref) and REG.classes.get(v.ty.cls, {}).get("backing_list"):
            fk = REG.field_key(REG.classes[v.ty.cls]["backing_list"], v.ty.cls)
            v = ex.h.get_field(st, v.t, fk[0], fk[1])
        if isinstance(v.ty, T.List):
            # shallow copy
            r = ex.new_obj(st, "list")
            n = ex.h.list_len(st, v.t, v.ty)
            ex.h.list_set_len(st, r, n, v.ty)
            for k, s in enumerate(v.ty.t.sorts()):
                key = v.ty.k_elem(k)
                a = ex.h.arr(st, key, [Obj, z3.IntSort()], s)
                st.heap[key] = z3.Store(a, r, z3.Select(a, v.t))
            for k in v.ty.ghost_sum:
                ex.h.list_set_sum(st, v.ty, r, k, ex.h.list_sum(st, v.ty, v.t, k))
            return V(v.ty, [r])
    if name.startswith("__cast_") and name.endswith("__"):
        cty = name[7:-2]
        v = ex.ev(args[0], st)
        x = ex.num(v) if v.ty in (T.Int, T.Real, T.Bool) else None
        if x is None:
            raise Unsupported(f"C cast of {v.ty}", node)
        if cty == "int":
            xi = real_trunc(x) if not z3.is_int(x) else x
            if not ex.spec:
                ex.oblige(st, "safety", f"c-cast-int-range@{node.lineno}", z3.And(xi >= INT32_MIN, xi <= INT32_MAX),
                          node, "C double->int conversion out of range is undefined")
            return T.mk_int(xi, cint=True)
        if cty == "double":
            return T.mk_real(x)
        if cty == "float":
            fn = z3.Function("rnd_binary32", z3.RealSort(), z3.RealSort())
            return T.mk_real(fn(to_real(x)))
        raise Unsupported(f"C cast to {cty}", node)
    return None


def _list_sort(ex, lv, node, st):
    """list.sort(key=f) -- external contract of the built-in (trusted): the list becomes a permutation of itself,
    non-decreasing in the key, and stable (equal keys keep their relative order)."""
    keyn = _kw(node, "key")
    if keyn is None or node.args:
        raise Unsupported("list.sort without key=", node)
    ty = lv.ty
    n = ex.h.list_len(st, lv.t, ty)
    old = st.fork()
    perm = z3.Function(T.fresh_name("sort_perm"), z3.IntSort(), z3.IntSort())     # new position -> old position
    rows = []
    for k, srt in enumerate(ty.t.sorts()):
        key = ty.k_elem(k)
        a = ex.h.arr(st, key, [Obj, z3.IntSort()], srt)
        st.heap[key] = z3.Store(a, lv.t, z3.Const(T.fresh_name("sorted.row"), z3.ArraySort(z3.IntSort(), srt)))
    ex.bump(st)
    i, j = z3.Int(T.fresh_name("si")), z3.Int(T.fresh_name("sj"))
    new_i = ex.h.list_get(st, ty, lv.t, i)
    new_j = ex.h.list_get(st, ty, lv.t, j)
    old_pi = ex.h.list_get(old, ty, lv.t, perm(i))

    def keyof(v):
        call = ast.Call(func=keyn, args=[ast.Name(id="__sort_elem", ctx=ast.Load())], keywords=[])
        ast.copy_location(call, node)
        st2 = st.fork()
        st2.env["__sort_elem"] = v
        return ex.ev(call, st2)

    ki, kj = keyof(new_i), keyof(new_j)
    inr = lambda x: z3.And(x >= 0, x < n)      # noqa: E731
    st.pc.append(z3.ForAll([i], z3.Implies(inr(i), z3.And(inr(perm(i)), ex.equal(new_i, old_pi)))))
    st.pc.append(z3.ForAll([i, j], z3.Implies(z3.And(inr(i), inr(j), i != j), perm(i) != perm(j))))
    inv = z3.Function(T.fresh_name("sort_inv"), z3.IntSort(), z3.IntSort())
    st.pc.append(z3.ForAll([i], z3.Implies(inr(i), z3.And(inr(inv(i)), perm(inv(i)) == i))))
    le = ex.compare(ast.LtE(), ki, kj, st, node)
    st.pc.append(z3.ForAll([i, j], z3.Implies(z3.And(inr(i), inr(j), i < j), le)))
    eqk = ex.equal(ki, kj)
    st.pc.append(z3.ForAll([i, j], z3.Implies(z3.And(inr(i), inr(j), i < j, eqk), perm(i) < perm(j))))
    return T.NONE


def _list_remove(ex, lv, node, st):
    """list.remove(x): deletes the first element equal to x (ValueError if absent)."""
    ty = lv.ty
    x = T.coerce(T.opt_inner(ex.ev(node.args[0], st)), ty.t)
    n = ex.h.list_len(st, lv.t, ty)
    p = z3.Int(T.fresh_name("rm_pos"))
    q = z3.Int(T.fresh_name("rq"))
    at_q = ex.h.list_get(st, ty, lv.t, q)
    present = z3.Exists([q], z3.And(q >= 0, q < n, ex.equal(at_q, x)))
    if not ex.spec:
        ex.oblige(st, "safety", f"remove-present@{node.lineno}", present, node, "list.remove(x): x not in list raises ValueError")
    at_p = ex.h.list_get(st, ty, lv.t, p)
    st.pc.append(z3.And(p >= 0, p < n, ex.equal(at_p, x)))
    st.pc.append(z3.ForAll([q], z3.Implies(z3.And(q >= 0, q < p), z3.Not(ex.equal(at_q, x)))))
    for k, srt in enumerate(ty.t.sorts()):
        key = ty.k_elem(k)
        a = ex.h.arr(st, key, [Obj, z3.IntSort()], srt)
        row = z3.Select(a, lv.t)
        jj = z3.Int(T.fresh_name("rj"))
        new_row = z3.Lambda([jj], z3.If(jj < p, z3.Select(row, jj), z3.Select(row, jj + 1)))
        st.heap[key] = z3.Store(a, lv.t, new_row)
    ex.h.list_set_len(st, lv.t, n - 1, ty)
    if ty.ghost_sum:
        raise Unsupported("remove on a list with ghost sum", node)
    return T.NONE


def _quant_genexp(ex, name, ge, node, st):
    if len(ge.generators) != 1 or ge.generators[0].ifs:
        raise Unsupported("complex generator expression", node)
    g = ge.generators[0]
    it = T.opt_inner(ex.ev(g.iter, st))
    if not isinstance(it.ty, T.List):
        raise Unsupported(f"all/any over {it.ty}", node)
    j = z3.Int(T.fresh_name("g"))
    n = ex.h.list_len(st, it.t, it.ty)
    elem = ex.h.list_get(st, it.ty, it.t, j)
    st2 = st.fork()
    nobl = len(ex.obls)
    ex.assign(g.target, elem, st2, node)
    st2.pc.append(z3.And(j >= 0, j < n))
    body = ex.truthy(st2, ex.ev(ge.elt, st2))
    # obligations raised inside the body are universally quantified over j: keep them (j is free = arbitrary)
    if name == "all":
        return T.mk_bool(z3.ForAll([j], z3.Implies(z3.And(j >= 0, j < n), body)))
    return T.mk_bool(z3.Exists([j], z3.And(j >= 0, j < n, body)))


# -----------------------------------------------------------------------------
def _method(ex, f: ast.Attribute, node, st):
    name = f.attr
    # module functions
    modname = getattr(ex, "aliases", {}).get(f.value.id, f.value.id) if isinstance(f.value, ast.Name) else None
    if modname == "copy" and f.value.id not in st.env and name == "copy":
        v = T.opt_inner(ex.ev(node.args[0], st))
        if not isinstance(v.ty, T.Ref):
            raise Unsupported("copy.copy of a non-object", node)
        o = ex.new_obj(st, "copy")
        for fk, fty in list(REG.fields.items()):
            if fk.startswith(v.ty.cls + "."):
                ex.h.set_field(st, o, fk, fty, ex.h.get_field(st, v.t, fk, fty))      # shallow: references are shared
        return V(v.ty, [o])
    if modname == "math" and f.value.id not in st.env:
        v = ex.ev(node.args[0], st)
        x = to_real(ex.num(v))
        if name == "ceil":
            return T.mk_int(real_ceil(x))
        if name == "floor":
            return T.mk_int(real_floor(x))
        raise Unsupported(f"math.{name}", node)
    try:
        base = ex.ev(f.value, st)
    except Unsupported:
        raise
    if isinstance(base.ty, T.Opt):
        if not ex.spec:
            ex.oblige(st, "safety", f"none-call.{name}@{node.lineno}", z3.Not(base.terms[0]), node,
                      "method call on None raises AttributeError")
        base = T.opt_inner(base)
    ty = base.ty
    if ty is T.TD and name == "total_seconds":
        return T.mk_real(base.t)
    if ty is T.DT:
        if name == "weekday" and ex.c.opaque_calendar:
            return ex.cal_uf(st, "weekday", real_floor(base.t))
        if name == "weekday":
            days = real_floor(base.t) / 86400
            return T.mk_int((days + 3) % 7)
        if name == "date":
            return V(T.Date, [real_floor(base.t) / 86400])
        if name == "isocalendar":
            from .calendar import iso_year_week
            days = real_floor(base.t) / 86400
            y, w = iso_year_week(ex, days)
            return T.mk_tuple([T.mk_int(y), T.mk_int(w), T.mk_int((days + 3) % 7 + 1)])
        if name == "replace":
            from .calendar import dt_replace
            return dt_replace(ex, base, node, st)
    if ty is T.Str and name == "startswith" and len(node.args) == 1 and isinstance(node.args[0], ast.Constant) \
            and isinstance(node.args[0].value, str):
        from . import strings as _s
        return _s.startswith(ex, base, node.args[0].value)
    if ty is T.Str and name == "split" and len(node.args) == 1 and isinstance(node.args[0], ast.Constant) \
            and isinstance(node.args[0].value, str):
        from . import strings as _s
        return _s.split(ex, st, base, node.args[0].value)
    if ty is T.Str and name in ("lower", "upper", "strip"):
        fn = z3.Function("uf_" + name, z3.IntSort(), z3.IntSort())
        return V(T.Str, [fn(base.t)])
    if isinstance(ty, T.Dict):
        if name == "get":
            kv = ex.ev(node.args[0], st)
            notnone = z3.BoolVal(True)
            if isinstance(kv.ty, T.Opt) and not isinstance(ty.k, T.Opt):
                notnone = z3.Not(kv.terms[0])
                kv = T.opt_inner(kv)
            k = T.coerce(kv, ty.k)
            has = z3.And(notnone, ex.h.dict_has(st, ty, base.t, k.t))
            val = ex.h.dict_get(st, ty, base.t, k.t)
            if len(node.args) > 1 and isinstance(node.args[1], (ast.Tuple, ast.List)) and not node.args[1].elts \
                    and isinstance(ty.v, T.List):
                # d.get(k, ()) / d.get(k, []) over list values: the default is an empty sequence of the value type
                # (an empty tuple and an empty list are indistinguishable to iteration, len and membership)
                dflt = ex._ev_rhs(ast.copy_location(ast.List(elts=[], ctx=ast.Load()), node.args[1]), st, ty.v)
            else:
                dflt = ex.ev(node.args[1], st) if len(node.args) > 1 else T.NONE
            return T.ite(has, val, dflt)
        raise Unsupported(f"dict.{name}", node)
    if isinstance(ty, T.List):
        if name == "append":
            ex.list_append(st, base, ex._ev_rhs(node.args[0], st, ty.t))
            return T.NONE
        if name == "sort":
            return _list_sort(ex, base, node, st)
        if name == "remove":
            return _list_remove(ex, base, node, st)
        if name == "extend":
            a0 = node.args[0]
            n0 = ex.h.list_len(st, base.t, ty)
            j = z3.Int(T.fresh_name("xj"))
            if (isinstance(a0, ast.BinOp) and isinstance(a0.op, ast.Mult) and isinstance(a0.left, ast.List)
                    and len(a0.left.elts) == 1):
                init = T.coerce(ex.ev(a0.left.elts[0], st), ty.t)
                cnt = ex.ev(a0.right, st)
                m = z3.If(cnt.t > 0, cnt.t, 0)
                elems = lambda k: init.terms[k]        # noqa: E731
                addsum = lambda k: to_real(init.terms[k]) * to_real(m)   # noqa: E731
            else:
                other = T.opt_inner(ex.ev(a0, st))
                if not isinstance(other.ty, T.List) or other.ty.t != ty.t:
                    raise Unsupported("list.extend with this argument", node)
                m = ex.h.list_len(st, other.t, other.ty)
                oe = ex.h.list_get(st, other.ty, other.t, j - n0)
                elems = lambda k: oe.terms[k]          # noqa: E731
                if ty.ghost_sum:
                    raise Unsupported("extend of a list with ghost sum by another list", node)
                addsum = None
            for k, srt in enumerate(ty.t.sorts()):
                key = ty.k_elem(k)
                a = ex.h.arr(st, key, [Obj, z3.IntSort()], srt)
                old_row = z3.Select(a, base.t)
                new_row = z3.Lambda([j], z3.If(z3.And(j >= n0, j < n0 + m), elems(k), z3.Select(old_row, j)))
                st.heap[key] = z3.Store(a, base.t, new_row)
            ex.h.list_set_len(st, base.t, n0 + m, ty)
            for k in ty.ghost_sum:
                ex.h.list_set_sum(st, ty, base.t, k, ex.h.list_sum(st, ty, base.t, k) + addsum(k))
            return T.NONE
        raise Unsupported(f"list.{name}", node)
    if isinstance(ty, T.Ref):
        # property-tree attribute access convention
        cl = REG.classes.get(ty.cls, {})
        m = cl.get("methods", {}).get(name)
        if m is not None:
            return _apply_directive(ex, m, node, st, ast.unparse(f))
        if name == "get" and cl.get("attrget"):
            return _attr_get(ex, node, st, base)
    return None
