"""Names available to contract files."""
from .types import Int, Real, Bool, Str, NoneT, DT, TD, Date, Opt, Ref, List, Dict, Tuple, Fn  # noqa
from .engine import contract, REG, Contract  # noqa


def ghost(name, params, src):
    REG.ghost[name] = (list(params), src)


def fields(**kw):
    REG.fields.update(kw)


def fields_of(cls, **kw):
    for k, v in kw.items():
        REG.fields[f"{cls}.{k}"] = v


def attrs(**kw):
    REG.attrs.update(kw)


def klass(name, **kw):
    REG.classes.setdefault(name, {}).update(kw)
