"""Names available to contract files."""
from .types import Int, Real, Bool, Str, NoneT, DT, TD, Date, Opt, Ref, List, Dict, Tuple, Fn, Struct  # noqa
from .engine import contract, REG, Contract  # noqa


def ghost(name, params, src, opaque=None, types=None, reads=None):
    """opaque=<type>: uninterpreted outside contracts that `reveal` it (keeps queries small).
    types: declared parameter types of an opaque ghost (arguments are coerced, so that e.g. a Str and an
    Opt[Str] argument give the same application)."""
    REG.ghost[name] = (list(params), src)
    if opaque is not None:
        REG.opaque[name] = opaque
        if types is not None:
            REG.opaque_types = getattr(REG, "opaque_types", {})
            REG.opaque_types[name] = list(types)
        if reads is not None:
            # abstract function of the listed heap components (no definition): e.g. the answer of a method that is
            # not itself under contract but whose inputs are known
            REG.opaque_reads = getattr(REG, "opaque_reads", {})
            REG.opaque_reads[name] = list(reads)


from . import types as _T


def fields(**kw):
    for k, v in kw.items():
        v = _T.with_region(v, k)
        _T.note_regions(v)
        REG.fields[k] = v


def fields_of(cls, **kw):
    for k, v in kw.items():
        v = _T.with_region(v, f"{cls}.{k}")
        _T.note_regions(v)
        REG.fields[f"{cls}.{k}"] = v


def attrs(**kw):
    for k, v in kw.items():
        v = _T.with_region(v, "@" + k)
        _T.note_regions(v)
        REG.attrs[k] = v


def local(ty, region):
    """Type of a local container: gets its own heap region."""
    v = _T.with_region(ty, "local:" + region)
    _T.note_regions(v)
    return v


def klass(name, **kw):
    REG.classes.setdefault(name, {}).update(kw)


def note_type(ty):
    _T.note_regions(ty)
    return ty


def classref(name):
    """A class object passed around as a value (e.g. TimeInterval given to the Cython scan)."""
    import z3
    from .types import V, Obj
    return V(Ref("type"), [z3.Const("cls!" + name, Obj)])
