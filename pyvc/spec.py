"""Names available to contract files."""
from .types import Int, Real, Bool, Str, NoneT, DT, TD, Date, Opt, Ref, List, Dict, Tuple, Fn  # noqa
from .engine import contract, REG, Contract  # noqa


def ghost(name, params, src):
    REG.ghost[name] = (list(params), src)


def fields(**kw):
    REG.fields.update(kw)


def fields_of(cls, **kw):
    for k, v in kw.items():
        REG.fields[f"{cls}.{k}"] = v


def attrs(**kw):
    REG.attrs.update(kw)


def klass(name, **kw):
    REG.classes.setdefault(name, {}).update(kw)


def classref(name):
    """A class object passed around as a value (e.g. TimeInterval given to the Cython scan)."""
    import z3
    from .types import V, Obj
    return V(Ref("type"), [z3.Const("cls!" + name, Obj)])
