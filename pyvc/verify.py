"""Generate the obligations of one contract from the current source."""
from __future__ import annotations
import ast
import time
import z3
from . import types as T
from .types import V
from .engine import Exec, State, Outcome, Unsupported, REG, Contract, Obligation, INT32_MIN, INT32_MAX, alloc_axioms
from . import source


class Generated:
    def __init__(self, contract):
        self.contract = contract
        self.obls = []
        self.undecided = []      # [(reason)]
        self.func = None
        self.paths = 0
        self.outcomes = {}
        self.cover = None
        self.gen_time = 0.0
        self.entry = None
        self.ex = None


def initial_state(ex: Exec, c: Contract, fs):
    from .engine import NOW0
    st = State()
    st.now = NOW0
    fdef = fs.fdef
    argnames = [a.arg for a in fdef.args.posonlyargs + fdef.args.args + fdef.args.kwonlyargs]
    for n in argnames:
        if n not in c.params:
            raise Unsupported(f"parameter {n} of {c.target} has no declared type in the contract")
    for n in c.params:
        if n not in argnames:
            raise Unsupported(f"contract parameter {n} is not a parameter of {c.target}")
    for n in argnames:
        ty = c.params[n]
        v = T.fresh(ty, n) if not isinstance(ty, T.Fn) else T.fresh(T.Fn(ty.args, ty.ret, name="fn!" + n), n)
        cty = fs.cparams.get(n) if c.cython else None
        if cty == "int":
            v.cint = True
            st.pc.append(z3.And(v.t >= INT32_MIN, v.t <= INT32_MAX))   # type invariant of a C int argument
        st.env[n] = v
        if isinstance(ty, (T.Ref, T.List, T.Dict)):
            ex.note_ref(v.t)
    for n, ty in c.ghost_params.items():
        st.env[n] = T.fresh(ty, n)
    return st


def generate(c: Contract) -> Generated:
    g = Generated(c)
    t0 = time.time()
    if c.trusted and c.target.startswith("extern::"):
        return g            # external contract: nothing to extract, nothing verified (listed as trusted)
    try:
        fs = source.load(c.target, c.client_src)
    except (LookupError, SyntaxError) as e:
        g.undecided.append(f"target: {e}")
        return g
    g.func = fs
    if c.trusted:
        g.gen_time = time.time() - t0
        return g
    ex = Exec(c, fs.fdef, fs.path, ctypes=fs.ctypes if c.cython else None)
    ex.aliases = getattr(fs, "aliases", {})
    ex.module_consts = getattr(fs, "module_consts", {})
    g.ex = ex
    try:
        st = initial_state(ex, c, fs)
        entry = st.fork()
        ex.entry_state = entry
        entry_env = dict(st.env)
        for lab, src in c.requires:
            st.pc.append(ex.spec_bool(st, src, entry_env))
        for src in c.assumes:
            st.pc.append(ex.spec_bool(st, src, entry_env))
        g.entry = (entry, entry_env, list(st.pc))
        # cover: the precondition must be satisfiable
        s = z3.Solver()
        s.set("timeout", 5000)
        for p in st.pc:
            s.add(p)
        r = s.check()
        g.cover = str(r)
        if r == z3.unsat:
            g.undecided.append("precondition is unsatisfiable (vacuous contract)")
            return g
        outs = ex.run_block(fs.fdef.body, st)
        g.paths = len(outs)
        pre_obls = list(ex.obls)
        ex.obls = []
        kinds = {}
        for o in outs:
            kinds[o.kind if o.kind != "raise" else f"raise:{o.exc}"] = kinds.get(o.kind if o.kind != "raise" else f"raise:{o.exc}", 0) + 1
            if o.kind in ("break", "continue"):
                raise Unsupported("break/continue escaped a loop")
            if o.kind in ("normal", "return"):
                val = o.val if o.kind == "return" else T.NONE
                if c.ret is not None:
                    if isinstance(val.ty, T.Opt) and not isinstance(c.ret, T.Opt) and c.ret is not T.NoneT:
                        ex.oblige(o.st, "safety", "return-not-None", z3.Not(val.terms[0]), None,
                                  f"declared return type {c.ret} excludes None")
                        val = T.opt_inner(val)
                    try:
                        val = T.coerce(val, c.ret)
                    except T.TypeErr as e:
                        raise Unsupported(f"return value {val.ty} does not fit declared {c.ret}: {e}")
                for lab, src in c.ensures:
                    goal = ex.spec_bool(o.st, src, entry_env, result=val, old_state=entry)
                    ex.oblige(o.st, "ensures", lab, goal, None, src)
                for exc, src in c.raises.items():
                    cond = ex.spec_bool(entry, src, entry_env)
                    ex.oblige(o.st, "raises", f"{exc}.not-returned", z3.Not(cond), None,
                              f"must raise {exc} when: {src}")
            elif o.exc == "SystemExit" and c.on_exit:
                env = dict(entry_env)
                env["exit_code"] = o.st.env.get("$exit_code", T.mk_int(0))
                for lab, src in c.on_exit:
                    goal = ex.spec_bool(o.st, src, env, old_state=entry)
                    ex.oblige(o.st, "on-exit", lab, goal, None, src)
            else:
                for lab, src in c.on_raise:
                    goal = ex.spec_bool(o.st, src, entry_env, old_state=entry)
                    ex.oblige(o.st, "on-raise", f"{lab}[{o.exc}]", goal, None, src)
                if o.exc in c.raises:
                    cond = ex.spec_bool(entry, c.raises[o.exc], entry_env)
                    ex.oblige(o.st, "raises", f"{o.exc}.only-when", cond, None,
                              f"{o.exc} may be raised only when: {c.raises[o.exc]}")
                elif o.exc in c.may_raise:
                    pass
                else:
                    ex.oblige(o.st, "safety", f"unexpected-raise:{o.exc}", z3.BoolVal(False), None,
                              f"path raises {o.exc}, which the contract does not allow")
        g.outcomes = kinds
        # frame check: everything written must be covered by `modifies` (callers havoc exactly that)
        if not c.target.startswith("lemma::"):
            from . import frame as _frame
            _frame.check(ex, entry, outs, c, entry_env)
        # relational clauses: two executions from the same initial heap
        if c.relational:
            for lab, shared, req_src, ens_src in c.relational:
                st2 = initial_state(ex, c, fs)
                for n in shared:
                    st2.env[n] = entry_env[n]
                env2 = dict(st2.env)
                for _l, src in c.requires:
                    st2.pc.append(ex.spec_bool(st2, src, env2))
                mark = len(ex.obls)
                outs2 = ex.run_block(fs.fdef.body, st2)
                del ex.obls[mark:]          # safety obligations of the second run duplicate the first
                for o1 in outs:
                    for o2 in outs2:
                        if o1.kind not in ("normal", "return") or o2.kind not in ("normal", "return"):
                            continue
                        env = {}
                        for n, v in entry_env.items():
                            env[n if n in shared else n + "_1"] = v
                        for n, v in env2.items():
                            if n not in shared:
                                env[n + "_2"] = v
                        env["result_1"] = o1.val if o1.kind == "return" else T.NONE
                        env["result_2"] = o2.val if o2.kind == "return" else T.NONE
                        stj = o1.st.fork()
                        stj.pc = o1.st.pc + o2.st.pc[:]
                        stj.trace = o1.st.trace + ["|"] + o2.st.trace
                        stj.pc.append(ex.spec_bool(entry, req_src, env))
                        goal = ex.spec_bool(entry, ens_src, env)
                        ex.oblige(stj, "relational", lab, goal, None, f"{req_src}  ==>  {ens_src}")
        g.obls = pre_obls + ex.obls
        for key in c.cuts:
            if key not in getattr(ex, "cuts_seen", set()):
                g.undecided.append(f"cut `{key}` matches no statement (contract no longer matches the code)")
        from . import calendar as _cal
        cal_ax = _cal.axioms(ex)
        if cal_ax:
            for o in g.obls:
                o.hyps = o.hyps + cal_ax
        from . import strings as _str
        str_ax = _str.axioms(ex)
        if str_ax:
            for o in g.obls:
                o.hyps = o.hyps + str_ax
        for o in g.obls:
            o.hyps = o.hyps + alloc_axioms(o.hyps + [o.goal], ex.known_refs, with_alloc=bool(ex.fresh_objs))
    except Unsupported as e:
        g.undecided.append(f"unsupported: {e}")
    except T.TypeErr as e:
        g.undecided.append(f"type: {e}")
    g.gen_time = time.time() - t0
    return g


def probes_for(g: Generated, exprs):
    """Evaluate probe expressions in the entry state, to be read back from counter-models."""
    if g.entry is None:
        return {}
    entry, env, _ = g.entry
    out = {}
    for name, src in exprs.items():
        try:
            v = g.ex.spec_eval(entry, src, env)
            for k, t in enumerate(v.terms):
                out[name if len(v.terms) == 1 else f"{name}.{k}"] = t
        except Exception:
            pass
    return out
