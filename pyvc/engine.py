"""pyvc: symbolic executor / VC generator over the *real* Python source (ast), z3 back end.

Soundness stance: every abstraction here is an over-approximation of the Python
semantics under the listed assumptions (see ASSUMPTIONS); anything outside the
supported subset raises Unsupported, which the runner reports as UNDECIDED.
"""
from __future__ import annotations
import ast
import copy
import z3
from . import types as T
from .types import V, Obj

ASSUMPTIONS = [
    "A-int: Python int is mathematical (true); C int in .pyx is modelled as mathematical with an explicit 32-bit range obligation",
    "A-float: Python float / C double is modelled as exact real arithmetic",
    "A-datetime: naive datetime = real number of seconds on the proleptic Gregorian line, timedelta = real seconds; weekday/hour/minute/date are div/mod terms (cross-checked against CPython on every run)",
    "A-alias: distinct parameters of reference type may alias unless the contract says otherwise (no assumption); fresh allocations are distinct from every previously materialised reference",
    "A-duck: hasattr/isinstance tests listed under `static` in a contract are resolved from the declared types",
]


class Unsupported(Exception):
    def __init__(self, msg, node=None):
        self.node = node
        line = getattr(node, "lineno", None)
        super().__init__(f"{msg}" + (f" (line {line})" if line else ""))


class Obligation:
    def __init__(self, oid, kind, hyps, goal, line=None, note=""):
        self.id = oid
        self.kind = kind
        self.hyps = list(hyps)
        self.goal = goal
        self.line = line
        self.note = note
        self.probes = {}

    def __repr__(self):
        return f"<Obl {self.id}>"


class State:
    def __init__(self):
        self.env: dict[str, V] = {}
        self.heap: dict[str, z3.ExprRef] = {}
        self.pc: list = []
        self.guards: list = []
        self.pending: list = []     # (cond, excname) raised by calls inside the current statement
        self.trace: list = []       # branch decisions, for path naming
        self.epoch = 0              # bumped at every heap write (keys opaque ghost functions to a heap version)
        self.now = None             # symbolic allocation clock (set to NOW0 at entry)
        self.born = []              # pending "everything in this havocked array was born before t" facts
        self.conds = []             # branch decisions only (subset of pc; assumptions are not in here)

    def fork(self):
        s = State()
        s.env = dict(self.env)
        s.heap = dict(self.heap)
        s.pc = list(self.pc)
        s.guards = list(self.guards)
        s.pending = list(self.pending)
        s.trace = list(self.trace)
        s.epoch = self.epoch
        s.now = self.now
        s.born = list(self.born)
        s.conds = list(self.conds)
        s.cur_exc = getattr(self, "cur_exc", None)
        return s

    def hyps(self):
        return self.pc + self.guards


class Outcome:
    def __init__(self, kind, st, val=None, exc=None):
        self.kind = kind      # 'normal' | 'return' | 'raise' | 'break' | 'continue'
        self.st = st
        self.val = val
        self.exc = exc


# ---------------------------------------------------------------------------
# registry of heap field / attribute types, ghost functions and contracts

class Registry:
    def __init__(self):
        self.fields: dict[str, T.Ty] = {}      # obj.<field>
        self.attrs: dict[str, T.Ty] = {}       # obj.get("<attr>", scIdx)
        self.ghost: dict[str, tuple] = {}      # name -> (params, expr-src)
        self.opaque: dict[str, object] = {}    # opaque ghost name -> result type
        self.contracts: dict[str, "Contract"] = {}
        self.classes: dict[str, dict] = {}

    def field_key(self, name, cls=None):
        if cls and f"{cls}.{name}" in self.fields:
            return f"{cls}.{name}", self.fields[f"{cls}.{name}"]
        if name in self.fields:
            return name, self.fields[name]
        return None

    def field_ty(self, name, cls=None):
        if cls and f"{cls}.{name}" in self.fields:
            return self.fields[f"{cls}.{name}"]
        if name in self.fields:
            return self.fields[name]
        return None


REG = Registry()


class Contract:
    def __init__(self, target, **kw):
        self.target = target                      # "path/to/file.py::Class.func"
        self.variant = kw.pop("variant", None)
        self.key = target + (f"#{self.variant}" if self.variant else "")
        self.client_src = kw.pop("client_src", None)   # lemma: client code verified against callee contracts
        self.name = kw.pop("name", target.split("::")[1] + (f"[{self.variant}]" if self.variant else ""))
        self.probes = kw.pop("probes", {})
        self.props = kw.pop("props", [])
        self.params = kw.pop("params", {})        # name -> Ty   (order = signature order)
        self.defaults = kw.pop("defaults", {})
        self.ret = kw.pop("ret", None)
        self.consts = kw.pop("consts", {})        # module-level names -> python constants / V
        self.requires = kw.pop("requires", [])    # [(label, src)] or [src]
        self.ensures = kw.pop("ensures", [])
        self.raises = kw.pop("raises", {})        # exc -> src condition over pre-state (iff)
        self.may_raise = kw.pop("may_raise", [])  # exceptions allowed without a stated condition
        self.modifies = kw.pop("modifies", [])    # heap keys the function may write (for callers)
        self.calls = kw.pop("calls", {})
        self.static = kw.pop("static", {})        # "hasattr(x, 'y')" -> bool
        self.loops = kw.pop("loops", {})          # ordinal -> {inv:[], decreases:src, locals:{}}
        self.locals = kw.pop("locals", {})
        self.ghost_params = kw.pop("ghost_params", {})
        self.pure = kw.pop("pure", False)
        self.trusted = kw.pop("trusted", False)   # contract assumed, body not verified (listed!)
        self.note = kw.pop("note", "")
        self.cython = kw.pop("cython", False)
        self.replay = kw.pop("replay", None)
        self.assumes = kw.pop("assumes", [])
        self.opaque_calendar = kw.pop("opaque_calendar", False)
        self.relational = kw.pop("relational", [])     # [(label, shared-params, requires-src, ensures-src)]
        self.reveal = kw.pop("reveal", [])             # opaque ghost functions expanded in this contract
        self.on_exit = kw.pop("on_exit", [])           # clauses checked on every sys.exit(code) path (name: exit_code)
        self.on_raise = kw.pop("on_raise", [])         # clauses checked on every path that leaves by an exception
        self.hide = kw.pop("hide", {})                 # {ghost name: result type}: opaque in this contract only
        self.no_merge = kw.pop("no_merge", [])         # line numbers / True: do not join these `if` branches
        # ghost assertions ("cuts"): {first line of a statement's source text: [(label, spec-src)]} -- proved as an
        # obligation in the state before that statement, then available as a hypothesis (never an unproved assumption)
        self.cuts = kw.pop("cuts", {})
        if kw:
            raise TypeError(f"unknown contract keys {list(kw)}")
        self.requires = [(f"r{i}", c) if isinstance(c, str) else c for i, c in enumerate(self.requires)]
        self.ensures = [(f"e{i}", c) if isinstance(c, str) else c for i, c in enumerate(self.ensures)]


def contract(target, **kw):
    c = Contract(target, **kw)
    if c.key in REG.contracts:
        raise ValueError(f"duplicate contract {c.key}")
    REG.contracts[c.key] = c
    return c


# ---------------------------------------------------------------------------
# heap helpers

def _arr_sort(dom_sorts, rng):
    s = rng
    for d in reversed(dom_sorts):
        s = z3.ArraySort(d, s)
    return s


def forall_pat(vs, body, pat=None):
    """ForAll with an explicit trigger when the term is a valid pattern (contains the bound variables, is an
    application); otherwise z3's own trigger inference."""
    def has_ite(t, depth=0):
        if depth > 12:
            return True
        if z3.is_app_of(t, z3.Z3_OP_ITE):
            return True
        return any(has_ite(c, depth + 1) for c in t.children())
    if pat is not None and not z3.is_var(pat) and z3.is_app(pat) and pat.num_args() > 0 and not has_ite(pat):
        try:
            return z3.ForAll(vs, body, patterns=[pat])
        except z3.Z3Exception:
            pass
    return z3.ForAll(vs, body)


class HeapOps:
    """All reads/writes of the symbolic heap. Arrays are created lazily; the initial
    version of key k is the constant H0!k (so old() can refer to it)."""

    def __init__(self, ex):
        self.ex = ex

    trace = None

    def arr(self, st: State, key, dom_sorts, rng):
        if self.trace is not None:
            self.trace[key] = (tuple(dom_sorts), rng)
        if key in st.heap:
            return st.heap[key]
        return z3.Const("H0!" + key, _arr_sort(dom_sorts, rng))

    # object fields -------------------------------------------------------
    def get_field(self, st, obj, name, ty):
        terms = []
        for k, s in enumerate(ty.sorts()):
            terms.append(z3.Select(self.arr(st, f"{name}#{k}", [Obj], s), obj))
        return V(ty, terms)

    def set_field(self, st_, *a, **k):
        self.ex.bump(st_)
        return self._set_field(st_, *a, **k)

    def _set_field(self, st, obj, name, ty, val: V):
        val = self.ex.coerce_store(st, val, ty, name)
        for k, s in enumerate(ty.sorts()):
            key = f"{name}#{k}"
            st.heap[key] = z3.Store(self.arr(st, key, [Obj], s), obj, val.terms[k])

    # property attributes: node.get("name", scIdx) ----------------------------
    def get_attr(self, st, obj, name, sc, ty):
        terms = []
        for k, s in enumerate(ty.sorts()):
            a = self.arr(st, f"@{name}#{k}", [Obj, z3.IntSort()], s)
            terms.append(z3.Select(z3.Select(a, obj), sc))
        return V(ty, terms)

    def set_attr(self, st_, *a, **k):
        self.ex.bump(st_)
        return self._set_attr(st_, *a, **k)

    def _set_attr(self, st, obj, name, sc, ty, val):
        val = self.ex.coerce_store(st, val, ty, '@' + name)
        for k, s in enumerate(ty.sorts()):
            key = f"@{name}#{k}"
            a = self.arr(st, key, [Obj, z3.IntSort()], s)
            st.heap[key] = z3.Store(a, obj, z3.Store(z3.Select(a, obj), sc, val.terms[k]))

    # lists ---------------------------------------------------------------
    def list_len(self, st, r, lty=None):
        key = lty.k_len() if lty is not None else "$len@"
        return z3.Select(self.arr(st, key, [Obj], z3.IntSort()), r)

    def list_set_len(self, st_, *a, **k):
        self.ex.bump(st_)
        return self._list_set_len(st_, *a, **k)

    def _list_set_len(self, st, r, n, lty=None):
        key = lty.k_len() if lty is not None else "$len@"
        st.heap[key] = z3.Store(self.arr(st, key, [Obj], z3.IntSort()), r, n)

    def list_get(self, st, lty: T.List, r, i):
        terms = []
        for k, s in enumerate(lty.t.sorts()):
            a = self.arr(st, lty.k_elem(k), [Obj, z3.IntSort()], s)
            terms.append(z3.Select(z3.Select(a, r), i))
        return V(lty.t, terms)

    def list_put(self, st_, *a, **k):
        self.ex.bump(st_)
        return self._list_put(st_, *a, **k)

    def _list_put(self, st, lty: T.List, r, i, val: V):
        val = self.ex.coerce_store(st, val, lty.t, 'list element')
        old = self.list_get(st, lty, r, i)
        for k, s in enumerate(lty.t.sorts()):
            key = lty.k_elem(k)
            a = self.arr(st, key, [Obj, z3.IntSort()], s)
            st.heap[key] = z3.Store(a, r, z3.Store(z3.Select(a, r), i, val.terms[k]))
        return old, val

    def list_sum(self, st, lty, r, k):
        return z3.Select(self.arr(st, lty.k_sum(k), [Obj], z3.RealSort()), r)

    def list_set_sum(self, st_, *a, **k):
        self.ex.bump(st_)
        return self._list_set_sum(st_, *a, **k)

    def _list_set_sum(self, st, lty, r, k, v):
        key = lty.k_sum(k)
        st.heap[key] = z3.Store(self.arr(st, key, [Obj], z3.RealSort()), r, v)

    # dicts ---------------------------------------------------------------
    def _ks(self, dty):
        ks = dty.k.sorts()
        if len(ks) != 1:
            raise Unsupported(f"dict key type {dty.k}")
        return ks[0]

    def dict_has(self, st, dty, r, k):
        a = self.arr(st, dty.k_dom(), [Obj, self._ks(dty)], z3.BoolSort())
        return z3.Select(z3.Select(a, r), k)

    def dict_get(self, st, dty, r, k):
        terms = []
        for j, s in enumerate(dty.v.sorts()):
            a = self.arr(st, dty.k_val(j), [Obj, self._ks(dty)], s)
            terms.append(z3.Select(z3.Select(a, r), k))
        return V(dty.v, terms)

    def dict_put(self, st_, *a, **k):
        self.ex.bump(st_)
        return self._dict_put(st_, *a, **k)

    def _dict_put(self, st, dty, r, k, val):
        val = self.ex.coerce_store(st, val, dty.v, 'dict value')
        key = dty.k_dom()
        a = self.arr(st, key, [Obj, self._ks(dty)], z3.BoolSort())
        st.heap[key] = z3.Store(a, r, z3.Store(z3.Select(a, r), k, z3.BoolVal(True)))
        for j, s in enumerate(dty.v.sorts()):
            key = dty.k_val(j)
            a = self.arr(st, key, [Obj, self._ks(dty)], s)
            st.heap[key] = z3.Store(a, r, z3.Store(z3.Select(a, r), k, val.terms[j]))

    def dict_clear_new(self, st_, *a, **k):
        self.ex.bump(st_)
        return self._dict_clear_new(st_, *a, **k)

    def _dict_clear_new(self, st, dty, r):
        key = dty.k_dom()
        a = self.arr(st, key, [Obj, self._ks(dty)], z3.BoolSort())
        st.heap[key] = z3.Store(a, r, z3.K(self._ks(dty), z3.BoolVal(False)))


# ---------------------------------------------------------------------------
# arithmetic helpers

def to_real(e):
    return z3.ToReal(e) if z3.is_int(e) else e


def py_floordiv(a, b):
    if z3.is_int_value(b) and b.as_long() > 0:
        return a / b
    return z3.If(b > 0, a / b, (-a) / (-b))      # z3 int '/' is floor for a positive divisor


def py_mod(a, b):
    if z3.is_int_value(b) and b.as_long() > 0:
        return a % b            # z3 mod = floor mod for a positive divisor
    return a - b * py_floordiv(a, b)


def c_div(a, b):
    q = z3.If(a >= 0, a, -a) / z3.If(b >= 0, b, -b)
    return z3.If((a >= 0) == (b >= 0), q, -q)


def c_mod(a, b):
    return a - b * c_div(a, b)


def real_floor(x):
    return z3.ToInt(x) if not z3.is_int(x) else x


def real_trunc(x):
    if z3.is_int(x):
        return x
    return z3.If(x >= 0, z3.ToInt(x), -z3.ToInt(-x))


def real_ceil(x):
    if z3.is_int(x):
        return x
    return -z3.ToInt(-x)


def py_round(x):
    if z3.is_int(x):
        return x
    r = z3.ToInt(x + z3.RealVal("1/2"))
    tie = z3.ToReal(r) == x + z3.RealVal("1/2")
    return z3.If(z3.And(tie, r % 2 != 0), r - 1, r)


INT32_MIN, INT32_MAX = -(2 ** 31), 2 ** 31 - 1

# Allocation order: birth(o) is the (symbolic) time at which object o was allocated. Pre-state objects are born
# before NOW0; every allocation takes the current time and advances it; a havoc (loop, call) advances it by an
# unknown amount and everything found in the havocked heap was born before the new time.
BIRTH = z3.Function("birth", Obj, z3.IntSort())
NOW0 = z3.Int("now0")


def PRE_ALLOC(o):
    return BIRTH(o) < NOW0


def born_before(arr, bound):
    """forall indices: the references held by heap array `arr` were born before `bound` (None if not Obj-valued)."""
    srt = arr.sort()
    term, vars_ = arr, []
    cur = srt
    while isinstance(cur, z3.ArraySortRef):
        v = z3.Const(f"bb_{len(vars_)}_{cur.domain()}", cur.domain())
        vars_.append(v)
        term = z3.Select(term, v)
        cur = cur.range()
    if cur != Obj or not vars_:
        return None
    return z3.ForAll(vars_, BIRTH(term) < bound)


def alloc_axioms(exprs, param_refs=(), with_alloc=True):
    """Closed-heap assumption: every reference stored in the *initial* heap (arrays named H0!...) and every
    reference parameter denotes an object allocated before the call."""
    seen = {}
    lens = {}
    stack = list(exprs)
    visited = set()
    while stack:
        e = stack.pop()
        if e.get_id() in visited:
            continue
        visited.add(e.get_id())
        if z3.is_quantifier(e):
            stack.append(e.body())
            continue
        if z3.is_const(e) and e.decl().kind() == z3.Z3_OP_UNINTERPRETED and e.decl().name().startswith("H0!"):
            seen[e.decl().name()] = e
        if z3.is_const(e) and e.decl().kind() == z3.Z3_OP_UNINTERPRETED and "$len@" in e.decl().name() \
                and z3.is_array(e):
            lens[e.decl().name()] = e
        stack.extend(e.children())
    axs = [PRE_ALLOC(r) for r in param_refs]
    for name, arr in lens.items():
        o = z3.Const("ax_o", Obj)
        axs.append(z3.ForAll([o], z3.Select(arr, o) >= 0))      # a list length is never negative

    for name, arr in seen.items():
        srt = arr.sort()
        doms = []
        cur = srt
        term = arr
        bound = []
        while isinstance(cur, z3.ArraySortRef):
            v = z3.Const(f"ax_{len(bound)}", cur.domain())
            bound.append(v)
            term = z3.Select(term, v)
            cur = cur.range()
        if cur == Obj and bound:
            axs.append(z3.ForAll(bound, PRE_ALLOC(term)))
    return axs


# ---------------------------------------------------------------------------

EXC_PARENT = {
    "FileNotFoundError": "OSError", "PermissionError": "OSError", "IsADirectoryError": "OSError",
    "FileExistsError": "OSError", "OSError": "Exception", "UnicodeDecodeError": "ValueError",
    "JSONDecodeError": "ValueError", "ValueError": "Exception", "KeyError": "LookupError", "IndexError": "LookupError",
    "LookupError": "Exception", "AttributeError": "Exception", "TypeError": "Exception", "RuntimeError": "Exception",
    "ZeroDivisionError": "ArithmeticError", "ArithmeticError": "Exception", "ReportGenerationError": "Exception",
    "Exception": "BaseException", "SystemExit": "BaseException", "KeyboardInterrupt": "BaseException",
}


def _handler_matches(names, exc):
    if "*" in names:
        return True
    cur = exc
    seen = 0
    while cur is not None and seen < 10:
        if cur in names:
            return True
        cur = EXC_PARENT.get(cur, "Exception" if cur not in ("BaseException",) else None)
        seen += 1
    return False


class Exec:
    """Symbolic execution of one function under one contract."""
    _epoch_ctr = [0]

    def bump(self, st):
        Exec._epoch_ctr[0] += 1
        st.epoch = Exec._epoch_ctr[0]

    def __init__(self, c: Contract, fdef: ast.FunctionDef, source_file: str, ctypes=None):
        self.c = c
        self.f = fdef
        self.file = source_file
        self.h = HeapOps(self)
        self.obls: list[Obligation] = []
        self.known_refs: list = []
        self.fresh_objs: list = []
        self.ctypes = ctypes or {}         # cython: local name -> C type
        self.loop_ord = {}
        n = 0
        for node in ast.walk(fdef):
            pass
        for node in self._loops_preorder(fdef):
            self.loop_ord[id(node)] = n
            n += 1
        self.nloops = n
        # cuts: "text" matches every statement whose source starts with text; "text#k" only the k-th such statement
        # (0-based, source order)
        self.cut_map = {}
        if c.cuts:
            stmts = sorted((x for x in ast.walk(fdef) if isinstance(x, ast.stmt) and x is not fdef),
                           key=lambda x: (x.lineno, x.col_offset))
            for key, clauses in c.cuts.items():
                base, _, ordn = key.partition("#")
                hits = [x for x in stmts if ast.unparse(x).split("\n")[0].startswith(base)]
                if ordn:
                    hits = hits[int(ordn):int(ordn) + 1]
                for x in hits:
                    self.cut_map.setdefault(id(x), []).append((key, clauses))
        self.spec = False
        self.old_env = None
        self.result = None
        self.calls_seen = {}
        self.feas_solver_timeout = 300
        self.cur_loop_counter = {}
        self.extra_axioms = []
        self.path_limit = 4000
        self.npaths = 0

    @staticmethod
    def _loops_preorder(fdef):
        out = []

        def visit(stmts):
            for s in stmts:
                if isinstance(s, (ast.For, ast.While)):
                    out.append(s)
                    visit(s.body)
                    visit(s.orelse)
                elif isinstance(s, ast.If):
                    visit(s.body)
                    visit(s.orelse)
                elif isinstance(s, ast.With):
                    visit(s.body)
                elif isinstance(s, ast.Try):
                    visit(s.body)
                    for h in s.handlers:
                        visit(h.body)
                    visit(s.orelse)
                    visit(s.finalbody)
        visit(fdef.body)
        return out

    # -- obligations --------------------------------------------------------
    def oblige(self, st, kind, label, goal, node=None, note=""):
        goal = z3.simplify(goal) if z3.is_expr(goal) else z3.BoolVal(bool(goal))
        if z3.is_true(goal):
            # still count it: trivially discharged
            pass
        oid = f"{self.c.name}/{kind}:{label}"
        o = Obligation(oid, kind, st.hyps(), goal, getattr(node, "lineno", None), note)
        o.path = "".join(st.trace)
        self.obls.append(o)
        return o

    # -- feasibility --------------------------------------------------------
    def feasible(self, hyps):
        s = z3.Solver()
        s.set("timeout", self.feas_solver_timeout)
        for h in hyps:
            s.add(h)
        for a in self.extra_axioms:
            s.add(a)
        return s.check() != z3.unsat

    # -- allocation -----------------------------------------------------------
    def new_obj(self, st, base="new"):
        """Fresh allocation: not allocated in the pre-state (so different from every reference held by the
        initial heap or passed as a parameter) and different from earlier allocations."""
        o = z3.Const(T.fresh_name(base), Obj)
        if st.born:
            # facts about older heap contents are only needed once something new is allocated
            st.pc.extend(st.born)
            st.born = []
        st.pc.append(BIRTH(o) == st.now)
        st.pc.append(st.now >= NOW0)
        st.now = st.now + 1
        self.fresh_objs.append(o)
        return o

    def advance_time(self, st):
        """Unknown code ran (loop iterations, a callee): time moved on by an unknown amount."""
        n1 = z3.Int(T.fresh_name("now"))
        st.pc.append(n1 >= st.now)
        st.now = n1
        return n1

    def note_ref(self, e):
        self.known_refs.append(e)

    def coerce_store(self, st, v, ty, what=""):
        """Coercion at a store: a possibly-None value flowing into a location declared non-optional is a
        type-safety obligation (discharged by the guarding test on the path)."""
        if isinstance(v.ty, T.Opt) and not isinstance(ty, T.Opt) and ty is not T.NoneT:
            if not self.spec:
                self.oblige(st, "safety", f"non-optional-store({what})", z3.Not(v.terms[0]), None,
                            f"None stored into {what} declared {ty}")
            v = T.opt_inner(v)
        return T.coerce(v, ty)

    # -- truthiness ----------------------------------------------------------
    def truthy(self, st, v: V):
        ty = v.ty
        if ty is T.Bool:
            return v.t
        if ty is T.Int:
            return v.t != 0
        if ty in (T.Real, T.TD):
            return v.t != 0
        if ty is T.NoneT:
            return z3.BoolVal(False)
        if ty in (T.DT, T.Date):
            return z3.BoolVal(True)
        if isinstance(ty, T.Opt):
            return z3.And(z3.Not(v.terms[0]), self.truthy(st, T.opt_inner(v)))
        if isinstance(ty, T.List):
            return self.h.list_len(st, v.t, ty) > 0
        if isinstance(ty, T.Dict):
            raise Unsupported("truthiness of dict")
        if isinstance(ty, T.Ref):
            tr = REG.classes.get(ty.cls, {}).get("truthy")
            if tr:
                return self.spec_eval(st, tr, {"self": v}).t
            return z3.BoolVal(True)
        if ty is T.Str:
            return v.t != T.mk_str("").t
        if isinstance(ty, T.Tuple):
            return z3.BoolVal(len(ty.ts) > 0)
        raise Unsupported(f"truthiness of {ty}")

    # -- equality -------------------------------------------------------------
    def equal(self, a: V, b: V):
        if a.ty is T.NoneT or b.ty is T.NoneT:
            return z3.And(T.opt_isnone(a), T.opt_isnone(b)) if (a.ty is T.NoneT and b.ty is T.NoneT) or True else None
        if isinstance(a.ty, T.Opt) or isinstance(b.ty, T.Opt):
            na, nb = T.opt_isnone(a), T.opt_isnone(b)
            ia, ib = T.opt_inner(a), T.opt_inner(b)
            return z3.Or(z3.And(na, nb), z3.And(z3.Not(na), z3.Not(nb), self.equal(ia, ib)))
        if isinstance(a.ty, T.Tuple) and isinstance(b.ty, T.Tuple):
            if len(a.ty.ts) != len(b.ty.ts):
                return z3.BoolVal(False)
            return z3.And(*[self.equal(x, y) for x, y in zip(T.tuple_items(a), T.tuple_items(b))])
        nums = (T.Int, T.Real, T.Bool)
        if a.ty is T.Bool and b.ty is T.Bool:
            return a.t == b.t
        if a.ty in nums and b.ty in nums:
            x, y = self.num(a), self.num(b)
            if z3.is_int(x) and z3.is_int(y):
                return x == y
            return to_real(x) == to_real(y)
        if a.ty == b.ty or (isinstance(a.ty, (T.Ref, T.List, T.Dict)) and isinstance(b.ty, (T.Ref, T.List, T.Dict))):
            return a.t == b.t
        if {a.ty, b.ty} <= {T.DT, T.TD, T.Real, T.Int}:
            return to_real(a.t) == to_real(b.t)
        return z3.BoolVal(False)

    def num(self, v: V):
        if v.ty is T.Bool:
            return z3.If(v.t, z3.IntVal(1), z3.IntVal(0))
        if v.ty in (T.Int, T.Real):
            return v.t
        raise Unsupported(f"numeric use of {v.ty}")

    # ----------------------------------------------------------------------
    # expressions

    def ev(self, node, st: State) -> V:
        m = getattr(self, "ev_" + type(node).__name__, None)
        if m is None:
            raise Unsupported(f"expression {type(node).__name__}", node)
        return m(node, st)

    def ev_Constant(self, node, st):
        v = node.value
        if v is None:
            return T.NONE
        if isinstance(v, bool):
            return T.mk_bool(v)
        if isinstance(v, int):
            return T.mk_int(v, cint=bool(self.c.cython))
        if isinstance(v, float):
            return T.mk_real(z3.RealVal(repr(v)))
        if isinstance(v, str):
            return T.mk_str(v)
        raise Unsupported(f"constant {v!r}", node)

    def ev_Name(self, node, st):
        n = node.id
        if n in st.env:
            return st.env[n]
        if n in self.c.consts:
            return self.lift_const(self.c.consts[n])
        if not self.spec and n in getattr(self, "module_consts", {}):
            return self.lift_const(self.module_consts[n])
        if self.spec and n == "result":
            return self.result
        if self.spec and n in ("True", "False"):
            return T.mk_bool(n == "True")
        if self.spec and n in (self.c.locals or {}) and n in self._assigned_names():
            # a declared local that the function assigns somewhere but not on this path, mentioned in a clause: an
            # arbitrary (ghost) value of its declared type, the same one throughout this run -- the clause then has to
            # hold whatever it is. (A name the function never assigns means the contract no longer matches the code,
            # e.g. after a rename: that stays "unbound name" = UNDECIDED, never a refutation.)
            gh = self.__dict__.setdefault("_ghost_locals", {})
            if n not in gh:
                gh[n] = T.fresh(self.c.locals[n], "unassigned." + n)
            return gh[n]
        raise Unsupported(f"unbound name {n}", node)

    def _assigned_names(self):
        an = self.__dict__.get("_assigned_cache")
        if an is None:
            an = set()
            for node in ast.walk(self.f):
                if isinstance(node, ast.Name) and isinstance(node.ctx, ast.Store):
                    an.add(node.id)
                elif isinstance(node, ast.arg):
                    an.add(node.arg)
            self._assigned_cache = an
        return an

    def lift_const(self, c):
        if isinstance(c, V):
            return c
        if c is None:
            return T.NONE
        if isinstance(c, bool):
            return T.mk_bool(c)
        if isinstance(c, int):
            return T.mk_int(c)
        if isinstance(c, float):
            return T.mk_real(z3.RealVal(repr(c)))
        if isinstance(c, str):
            return T.mk_str(c)
        raise Unsupported(f"constant {c!r}")

    def ev_Tuple(self, node, st):
        return T.mk_tuple([self.ev(e, st) for e in node.elts])

    def ev_JoinedStr(self, node, st):
        return T.fresh(T.Str, "fstr")

    def ev_UnaryOp(self, node, st):
        v = self.ev(node.operand, st)
        if isinstance(node.op, ast.Not):
            return T.mk_bool(z3.Not(self.truthy(st, v)))
        if isinstance(node.op, ast.USub):
            if isinstance(v.ty, T.Opt):
                if not self.spec:
                    self.oblige(st, "safety", f"none-arith@{getattr(node, 'lineno', 0)}", z3.Not(v.terms[0]), node,
                                "arithmetic on None raises TypeError")
                v = T.opt_inner(v)
            if v.ty in (T.TD,):
                return V(T.TD, [-v.t])
            x = self.num(v)
            return V(T.Int if z3.is_int(x) else T.Real, [-x], cint=v.cint)
        if isinstance(node.op, ast.UAdd):
            return v
        raise Unsupported("unary op", node)

    def ev_BoolOp(self, node, st):
        # short-circuit: later operands are evaluated under a guard
        is_and = isinstance(node.op, ast.And)
        vals, conds = [], []
        pushed = 0
        try:
            for i, e in enumerate(node.values):
                lt0 = None
                if vals and isinstance(e, ast.List) and not e.elts:
                    t0 = vals[0].ty.t if isinstance(vals[0].ty, T.Opt) else vals[0].ty
                    if isinstance(t0, T.List):
                        lt0 = t0
                if lt0 is not None:
                    self._pending_list_type, self._pending_region = lt0.t, lt0.region
                    try:
                        v = self.ev(e, st)
                    finally:
                        self._pending_list_type = self._pending_region = None
                    v = V(lt0, v.terms)
                else:
                    v = self.ev(e, st)
                vals.append(v)
                if i < len(node.values) - 1:
                    t = self.truthy(st, v)
                    ts = z3.simplify(t)
                    if (is_and and z3.is_false(ts)) or (not is_and and z3.is_true(ts)):
                        break               # short-circuit decided syntactically: later operands never run
                    conds.append(t)
                    st.guards.append(t if is_and else z3.Not(t))
                    pushed += 1
        finally:
            for _ in range(pushed):
                st.guards.pop()
        res = vals[-1]
        for v, t in zip(reversed(vals[:-1]), reversed(conds)):
            if is_and:
                res = self._ite_val(st, t, res, v)
            else:
                res = self._ite_val(st, t, v, res)
        return res

    def _ite_val(self, st, c, a, b):
        c = z3.simplify(c)
        if z3.is_true(c):
            return a
        if z3.is_false(c):
            return b
        try:
            # `x or default` where x: Opt[T]: when truthy(x) holds x is not None -> use inner
            if isinstance(a.ty, T.Opt) and not isinstance(b.ty, T.Opt) and b.ty is not T.NoneT:
                a = T.opt_inner(a)
            return T.ite(c, a, b)
        except T.TypeErr:
            # both operands only used for truthiness? fall back to bool
            return T.mk_bool(z3.If(c, self.truthy(st, a), self.truthy(st, b)))

    def ev_IfExp(self, node, st):
        c = self.truthy(st, self.ev(node.test, st))
        cs = z3.simplify(c)
        if z3.is_true(cs):                     # the other branch is not evaluated (Python semantics)
            return self.ev(node.body, st)
        if z3.is_false(cs):
            return self.ev(node.orelse, st)
        st.guards.append(c)
        try:
            a = self.ev(node.body, st)
        finally:
            st.guards.pop()
        st.guards.append(z3.Not(c))
        try:
            b = self.ev(node.orelse, st)
        finally:
            st.guards.pop()
        return self._ite_val2(c, a, b)

    def _ite_val2(self, c, a, b):
        c = z3.simplify(c)
        if z3.is_true(c):
            return a
        if z3.is_false(c):
            return b
        return T.ite(c, a, b)

    def ev_Compare(self, node, st):
        left = self.ev(node.left, st)
        res = []
        for op, rn in zip(node.ops, node.comparators):
            right = self.ev(rn, st)
            res.append(self.compare(op, left, right, st, node))
            left = right
        return T.mk_bool(z3.And(*res) if len(res) > 1 else res[0])

    def compare(self, op, a, b, st, node):
        if isinstance(op, (ast.Is, ast.Eq)):
            if b.ty is T.NoneT:
                return T.opt_isnone(a)
            if a.ty is T.NoneT:
                return T.opt_isnone(b)
            if isinstance(op, ast.Is) and (a.ty is T.Bool or b.ty is T.Bool):
                # `x is False` on Opt[Bool]
                pass
            return self.equal(a, b)
        if isinstance(op, (ast.IsNot, ast.NotEq)):
            return z3.Not(self.compare(ast.Eq(), a, b, st, node))
        if isinstance(op, (ast.In, ast.NotIn)):
            r = self.contains(a, b, st, node)
            return r if isinstance(op, ast.In) else z3.Not(r)
        # ordering
        if isinstance(a.ty, T.Tuple) and isinstance(b.ty, T.Tuple) and len(a.ty.ts) == len(b.ty.ts):
            ia, ib = T.tuple_items(a), T.tuple_items(b)
            strict = isinstance(op, (ast.Lt, ast.Gt))
            lt_op = ast.Lt() if isinstance(op, (ast.Lt, ast.LtE)) else ast.Gt()
            res = z3.BoolVal(not strict)            # all components equal
            for x, y in reversed(list(zip(ia, ib))):
                res = z3.Or(self.compare(lt_op, x, y, st, node), z3.And(self.equal(x, y), res))
            return res
        a, b = self._unopt_for_order(a, st, node), self._unopt_for_order(b, st, node)
        if a.ty in (T.DT, T.TD, T.Date) and a.ty == b.ty:
            x, y = a.t, b.t
        elif a.ty in (T.Int, T.Real, T.Bool) and b.ty in (T.Int, T.Real, T.Bool):
            x, y = self.num(a), self.num(b)
            if not (z3.is_int(x) and z3.is_int(y)):
                x, y = to_real(x), to_real(y)
        else:
            raise Unsupported(f"ordering of {a.ty} and {b.ty}", node)
        if isinstance(op, ast.Lt):
            return x < y
        if isinstance(op, ast.LtE):
            return x <= y
        if isinstance(op, ast.Gt):
            return x > y
        if isinstance(op, ast.GtE):
            return x >= y
        raise Unsupported("compare op", node)

    def _unopt_for_order(self, v, st, node):
        if isinstance(v.ty, T.Opt):
            if not self.spec:
                self.oblige(st, "safety", f"none-compare@{getattr(node, 'lineno', 0)}", z3.Not(v.terms[0]), node,
                            "ordering comparison with None raises TypeError")
            return T.opt_inner(v)
        if v.ty is T.NoneT:
            if not self.spec:
                self.oblige(st, "safety", f"none-compare@{getattr(node, 'lineno', 0)}", z3.BoolVal(False), node)
            raise Unsupported("ordering with None", node)
        return v

    def contains(self, a, b, st, node):
        if isinstance(b.ty, T.Dict):
            if isinstance(a.ty, T.Opt) and not isinstance(b.ty.k, T.Opt):
                # None is never a key of a dict whose keys have type b.ty.k
                return z3.And(z3.Not(a.terms[0]), self.h.dict_has(st, b.ty, b.t, T.coerce(T.opt_inner(a), b.ty.k).t))
            if a.ty is T.NoneT:
                return z3.BoolVal(False)
            return self.h.dict_has(st, b.ty, b.t, T.coerce(a, b.ty.k).t)
        if isinstance(b.ty, T.Tuple):
            return z3.Or(*[self.equal(a, x) for x in T.tuple_items(b)])
        if isinstance(b.ty, T.List):
            # membership in a heap list: unconstrained (sound over-approximation) unless spec mode
            n = self.h.list_len(st, b.t, b.ty)
            j = z3.Int(T.fresh_name("j"))
            elem = self.h.list_get(st, b.ty, b.t, j)
            return z3.Exists([j], z3.And(0 <= j, j < n, self.equal(a, elem)))
        raise Unsupported(f"`in` on {b.ty}", node)

    def ev_List(self, node, st):
        # list literal -> fresh heap list; element type from contents (needs >=1 elt) or declared later
        if not node.elts:
            ety = self._pending_list_type or T.Int
        else:
            vals = [self.ev(e, st) for e in node.elts]
            ety = vals[0].ty
            for v in vals[1:]:
                ety = T.join_ty(ety, v.ty)
        lty = T.List(ety, region=self._pending_region or "")
        r = self.new_obj(st, "list")
        self.h.list_set_len(st, r, z3.IntVal(0), lty)
        lv = V(lty, [r])
        for k in getattr(lty, "ghost_sum", ()):
            self.h.list_set_sum(st, lty, r, k, z3.RealVal(0))
        if node.elts:
            for v in vals:
                self.list_append(st, lv, v)
        return lv

    _pending_list_type = None
    _pending_region = None

    def ev_Dict(self, node, st):
        if node.keys and all(isinstance(k, ast.Constant) and isinstance(k.value, str) for k in node.keys):
            # record literal {"a": x, "b": y}
            vals = [self.ev(v, st) for v in node.values]
            ty = T.Struct(**{k.value: v.ty for k, v in zip(node.keys, vals)})
            terms = []
            for v in vals:
                terms += v.terms
            return V(ty, terms)
        if node.keys:
            raise Unsupported("non-empty dict literal", node)
        dty = self._pending_dict_type
        if dty is None:
            raise Unsupported("dict literal without declared type", node)
        r = self.new_obj(st, "dict")
        self.h.dict_clear_new(st, dty, r)
        return V(dty, [r])

    _pending_dict_type = None

    def list_append(self, st, lv, v):
        lty = lv.ty
        n = self.h.list_len(st, lv.t, lty)
        _, v2 = self.h.list_put(st, lty, lv.t, n, v)
        self.h.list_set_len(st, lv.t, n + 1, lty)
        for k in lty.ghost_sum:
            self.h.list_set_sum(st, lty, lv.t, k, self.h.list_sum(st, lty, lv.t, k) + to_real(v2.terms[k]))

    def ev_BinOp(self, node, st):
        a = self.ev(node.left, st)
        b = self.ev(node.right, st)
        return self.binop(node.op, a, b, st, node)

    def binop(self, op, a, b, st, node):
        # datetime algebra
        if a.ty is T.DT and b.ty is T.DT and isinstance(op, ast.Sub):
            return V(T.TD, [a.t - b.t])
        if a.ty is T.DT and b.ty is T.TD:
            if isinstance(op, ast.Add):
                return V(T.DT, [a.t + b.t])
            if isinstance(op, ast.Sub):
                return V(T.DT, [a.t - b.t])
        if a.ty is T.TD and b.ty is T.DT and isinstance(op, ast.Add):
            return V(T.DT, [a.t + b.t])
        if a.ty is T.TD and b.ty is T.TD and isinstance(op, (ast.Add, ast.Sub)):
            return V(T.TD, [a.t + b.t if isinstance(op, ast.Add) else a.t - b.t])
        if a.ty is T.Date and b.ty is T.Date and isinstance(op, ast.Sub):
            return V(T.TD, [to_real((a.t - b.t) * 86400)])
        if a.ty is T.Date and b.ty is T.TD and isinstance(op, (ast.Add, ast.Sub)):
            # date +/- timedelta: only the whole days of the timedelta count
            dd = real_floor(b.t) / 86400
            return V(T.Date, [a.t + dd if isinstance(op, ast.Add) else a.t - dd])
        if isinstance(a.ty, T.Opt) or isinstance(b.ty, T.Opt) or a.ty is T.NoneT or b.ty is T.NoneT:
            for x in (a, b):
                if isinstance(x.ty, T.Opt) or x.ty is T.NoneT:
                    if not self.spec:
                        self.oblige(st, "safety", f"none-arith@{getattr(node, 'lineno', 0)}",
                                    z3.Not(T.opt_isnone(x)), node, "arithmetic on None raises TypeError")
            a, b = T.opt_inner(a), T.opt_inner(b)
            if a.ty is T.NoneT or b.ty is T.NoneT:
                raise Unsupported("arithmetic on None", node)
            return self.binop(op, a, b, st, node)
        if isinstance(a.ty, T.List) and isinstance(op, ast.Mult):
            raise Unsupported("list repetition outside assignment", node)
        if isinstance(a.ty, T.List) and isinstance(b.ty, T.List) and isinstance(op, ast.Add):
            # concatenation: a fresh list, first the elements of a, then those of b
            lty = T.List(a.ty.t)
            na, nb = self.h.list_len(st, a.t, a.ty), self.h.list_len(st, b.t, b.ty)
            r = self.new_obj(st, "concat")
            self.h.list_set_len(st, r, na + nb, lty)
            k = z3.Int(T.fresh_name("cc"))
            got = self.h.list_get(st, lty, r, k)
            ak = T.coerce(self.h.list_get(st, a.ty, a.t, k), lty.t)
            bk = T.coerce(self.h.list_get(st, b.ty, b.t, k), lty.t)
            # stated in both directions so that either side's element term triggers the instance
            st.pc.append(forall_pat([k], z3.Implies(z3.And(k >= 0, k < na), self.equal(got, ak)), got.terms[-1]))
            st.pc.append(forall_pat([k], z3.Implies(z3.And(k >= 0, k < na), self.equal(got, ak)), ak.terms[-1]))
            st.pc.append(forall_pat([k], z3.Implies(z3.And(k >= na, k < na + nb),
                                                    self.equal(got, T.coerce(self.h.list_get(st, b.ty, b.t, k - na), lty.t))),
                                    got.terms[-1]))
            st.pc.append(forall_pat([k], z3.Implies(z3.And(k >= 0, k < nb),
                                                    self.equal(self.h.list_get(st, lty, r, k + na), bk)), bk.terms[-1]))
            return V(lty, [r])
        x, y = self.num(a), self.num(b)
        both_int = z3.is_int(x) and z3.is_int(y)
        cint = a.cint and b.cint and both_int
        if isinstance(op, (ast.Add, ast.Sub, ast.Mult)):
            if not both_int:
                x, y = to_real(x), to_real(y)
            r = x + y if isinstance(op, ast.Add) else x - y if isinstance(op, ast.Sub) else x * y
            return V(T.Int if both_int else T.Real, [r], cint=cint)
        if isinstance(op, ast.Div):
            if cint:
                self._nonzero(st, y, node)
                return V(T.Int, [c_div(x, y)], cint=True)
            x, y = to_real(x), to_real(y)
            self._nonzero(st, y, node)
            return V(T.Real, [x / y])
        if isinstance(op, ast.FloorDiv):
            self._nonzero(st, y, node)
            if both_int:
                return V(T.Int, [c_div(x, y) if cint else py_floordiv(x, y)], cint=cint)
            return V(T.Real, [to_real(z3.ToInt(to_real(x) / to_real(y)))])
        if isinstance(op, ast.Mod):
            self._nonzero(st, y, node)
            if both_int:
                return V(T.Int, [c_mod(x, y) if cint else py_mod(x, y)], cint=cint)
            raise Unsupported("float modulo", node)
        if isinstance(op, ast.BitAnd) and both_int:
            return self._bitop(x, y, "and", node)
        if isinstance(op, ast.LShift) and both_int and z3.is_int_value(y):
            return V(T.Int, [x * (2 ** y.as_long())])
        if isinstance(op, ast.RShift) and both_int and z3.is_int_value(y):
            return V(T.Int, [x / (2 ** y.as_long())])
        raise Unsupported(f"binary op {type(op).__name__}", node)

    def _bitop(self, x, y, kind, node):
        raise Unsupported("bit operation", node)

    def _nonzero(self, st, y, node):
        if self.spec:
            return
        if z3.is_rational_value(y) or z3.is_int_value(y):
            if z3.simplify(y != 0):
                pass
            if not z3.is_false(z3.simplify(y == 0)):
                if z3.is_true(z3.simplify(y == 0)):
                    self.oblige(st, "safety", f"div0@{getattr(node, 'lineno', 0)}", z3.BoolVal(False), node)
                return
        self.oblige(st, "safety", f"div0@{getattr(node, 'lineno', 0)}", y != 0, node, "ZeroDivisionError")

    def cal_uf(self, st, name, secs):
        """Opaque calendar component (contracts that do not depend on calendar arithmetic): an uninterpreted
        function of the whole second, constrained only by its range."""
        lo, hi = {"weekday": (0, 6), "hour": (0, 23), "minute": (0, 59)}[name]
        fn = z3.Function("cal_" + name, z3.IntSort(), z3.IntSort())
        t = fn(secs)
        st.pc.append(z3.And(t >= lo, t <= hi))
        return T.mk_int(t)

    # attribute access -------------------------------------------------------
    def ev_Attribute(self, node, st):
        base = self.ev(node.value, st)
        return self.get_attribute(base, node.attr, st, node)

    def get_attribute(self, base, name, st, node):
        ty = base.ty
        if isinstance(ty, T.Opt):
            if not self.spec:
                self.oblige(st, "safety", f"none-attr.{name}@{getattr(node, 'lineno', 0)}", z3.Not(base.terms[0]),
                            node, "attribute access on None raises AttributeError")
            base = T.opt_inner(base)
            ty = base.ty
        if ty is T.NoneT:
            if not self.spec:
                self.oblige(st, "safety", f"none-attr.{name}@{getattr(node, 'lineno', 0)}", z3.BoolVal(False), node)
            raise Unsupported(f"attribute {name} of None", node)
        if ty is T.DT and self.c.opaque_calendar and name in ("hour", "minute"):
            return self.cal_uf(st, name, real_floor(base.t))
        if ty is T.DT:
            secs = real_floor(base.t)
            sod = secs % 86400
            if name == "hour":
                return T.mk_int(sod / 3600)
            if name == "minute":
                return T.mk_int((sod % 3600) / 60)
            if name == "second":
                return T.mk_int(sod % 60)
        if ty is T.TD:
            if name == "days":
                # floor(x / 86400) == floor(x) div 86400  (floor of a quotient by a positive integer)
                return T.mk_int(real_floor(base.t) / 86400)
            if name == "seconds":
                return T.mk_int(real_floor(base.t) % 86400)
            if name == "microseconds":
                return T.mk_int(real_floor((base.t - to_real(real_floor(base.t))) * 1000000))
        if isinstance(ty, T.Ref):
            fk = REG.field_key(name, ty.cls)
            if fk is None:
                prop = REG.classes.get(ty.cls, {}).get("props", {}).get(name)
                if prop is not None:
                    return self.spec_eval(st, prop, {"self": base})
                raise Unsupported(f"field {ty.cls}.{name} has no declared type", node)
            v = self.h.get_field(st, base.t, fk[0], fk[1])
            return v
        raise Unsupported(f"attribute {name} of {ty}", node)

    def ev_Subscript(self, node, st):
        base = self.ev(node.value, st)
        if isinstance(node.slice, ast.Slice):
            sl = node.slice
            if base.ty is T.Str and sl.upper is None and sl.step is None and isinstance(sl.lower, ast.Constant) \
                    and sl.lower.value == 1:
                from . import strings as _s
                return _s.tail(self, base)
            if isinstance(base.ty, T.List) and sl.upper is None and sl.step is None and isinstance(sl.lower, ast.Constant) \
                    and isinstance(sl.lower.value, int) and sl.lower.value >= 0:
                # xs[c:]: a fresh list holding the elements from position c on
                c = sl.lower.value
                lty = T.List(base.ty.t)
                n = self.h.list_len(st, base.t, base.ty)
                r = self.new_obj(st, "slice")
                self.h.list_set_len(st, r, z3.If(n >= c, n - c, 0), lty)
                k = z3.Int(T.fresh_name("sl"))
                st.pc.append(z3.ForAll([k], z3.Implies(z3.And(k >= 0, k < n - c), self.equal(
                    self.h.list_get(st, lty, r, k), T.coerce(self.h.list_get(st, base.ty, base.t, k + c), lty.t)))))
                return V(lty, [r])
            raise Unsupported("slice", node)
        return self.subscript(base, node.slice, st, node)

    def subscript(self, base, idxnode, st, node):
        ty = base.ty
        if isinstance(ty, T.Opt):
            if not self.spec:
                self.oblige(st, "safety", f"none-subscript@{getattr(node, 'lineno', 0)}", z3.Not(base.terms[0]), node)
            base = T.opt_inner(base)
            ty = base.ty
        if isinstance(ty, T.Struct):
            if not (isinstance(idxnode, ast.Constant) and idxnode.value in ty.names):
                raise Unsupported("record key", node)
            return T.tuple_items(base)[ty.names.index(idxnode.value)]
        if isinstance(ty, T.Tuple):
            i = self.ev(idxnode, st)
            if not z3.is_int_value(z3.simplify(i.t)):
                raise Unsupported("tuple index must be constant", node)
            return T.tuple_items(base)[z3.simplify(i.t).as_long()]
        if isinstance(ty, T.List):
            i = self.ev(idxnode, st)
            return self.list_index(st, base, i, node)
        if isinstance(ty, T.Dict):
            kv = self.ev(idxnode, st)
            if isinstance(kv.ty, T.Opt) and not isinstance(ty.k, T.Opt):
                if not self.spec:
                    self.oblige(st, "safety", f"keyerror-none@{getattr(node, 'lineno', 0)}", z3.Not(kv.terms[0]), node,
                                "KeyError (None key)")
                kv = T.opt_inner(kv)
            k = T.coerce(kv, ty.k)
            if not self.spec:
                self.oblige(st, "safety", f"keyerror@{getattr(node, 'lineno', 0)}",
                            self.h.dict_has(st, ty, base.t, k.t), node, "KeyError")
            return self.h.dict_get(st, ty, base.t, k.t)
        if isinstance(ty, T.Ref):
            # user-defined __getitem__ via class table
            gi = REG.classes.get(ty.cls, {}).get("getitem")
            if gi:
                return gi(self, st, base, idxnode, node)
        raise Unsupported(f"subscript of {ty}", node)

    def list_index(self, st, lv, i: V, node, write=False):
        n = self.h.list_len(st, lv.t, lv.ty)
        ix = self.num(i)
        if not self.spec:
            if i.cint and self.c.cython:
                # boundscheck=False, wraparound=False: out-of-range is undefined behaviour -> must be excluded
                self.oblige(st, "safety", f"index@{getattr(node, 'lineno', 0)}", z3.And(ix >= 0, ix < n), node,
                            "C-level unchecked list index")
            else:
                self.oblige(st, "safety", f"index@{getattr(node, 'lineno', 0)}", z3.And(ix >= -n, ix < n), node,
                            "IndexError")
        # contract expressions index from 0 (no Python wrap-around): keeps quantifier triggers simple
        eff = z3.If(ix < 0, ix + n, ix) if not ((i.cint and self.c.cython) or self.spec) else ix
        eff = z3.simplify(eff)
        if write:
            return eff
        return self.h.list_get(st, lv.ty, lv.t, eff)

    # calls -------------------------------------------------------------------
    def ev_Call(self, node, st):
        from .calls import eval_call
        return eval_call(self, node, st)

    def ev_Lambda(self, node, st):
        raise Unsupported("lambda", node)

    def ev_ListComp(self, node, st):
        """[elt for x in src if cond]: a fresh list. Modelled by the defining property of a comprehension over a
        list (order-preserving selection): there is a strictly increasing index map f with
        result[k] == elt(src[f(k)]) and cond(src[f(k)]); every src index satisfying cond is in the image of f."""
        if len(node.generators) != 1:
            raise Unsupported("nested comprehension", node)
        g = node.generators[0]
        src = T.opt_inner(self.ev(g.iter, st))
        if isinstance(src.ty, T.Ref):
            itf = REG.classes.get(src.ty.cls, {}).get("iter")
            if not itf:
                raise Unsupported(f"comprehension over {src.ty}", node)
            dom = itf(self, src, st)
            n_src, at = dom.n, dom.at
        elif isinstance(src.ty, T.List):
            n_src = self.h.list_len(st, src.t, src.ty)
            at = lambda i, st2: self.h.list_get(st2, src.ty, src.t, i)   # noqa: E731
        else:
            raise Unsupported(f"comprehension over {src.ty}", node)
        hint = self._comp_hint
        k = z3.Int(T.fresh_name("ck"))
        f = z3.Function(T.fresh_name("comp_f"), z3.IntSort(), z3.IntSort())
        # element type from one symbolic evaluation
        st2 = st.fork()
        self.assign(g.target, at(f(k), st2), st2, node)
        elt = self.ev(node.elt, st2)
        lty = hint if isinstance(hint, T.List) else T.List(elt.ty)
        r = self.new_obj(st, "comp")
        n_res = z3.Int(T.fresh_name("comp_n"))
        self.h.list_set_len(st, r, n_res, lty)
        res = V(lty, [r])
        if not g.ifs:
            # plain map: same length, element k comes from source element k
            st4 = st.fork()
            self.assign(g.target, at(k, st4), st4, node)
            elt_k = self.ev(node.elt, st4)
            st.pc.append(n_res == n_src)
            st.pc.append(z3.ForAll([k], z3.Implies(z3.And(k >= 0, k < n_res),
                                                   self.equal(self.h.list_get(st, lty, r, k), T.coerce(elt_k, lty.t)))))
            return res
        conds = [self.truthy(st2, self.ev(c, st2)) for c in g.ifs]
        cond_k = z3.And(*conds) if conds else z3.BoolVal(True)
        got = self.h.list_get(st, lty, r, k)
        st.pc.append(n_res >= 0)
        st.pc.append(n_res <= n_src)
        body_k = z3.Implies(z3.And(k >= 0, k < n_res),
                            z3.And(f(k) >= 0, f(k) < n_src, cond_k, self.equal(got, T.coerce(elt, lty.t))))
        st.pc.append(forall_pat([k], body_k, got.terms[-1]))
        st.pc.append(forall_pat([k], body_k, f(k)))
        k2 = z3.Int(T.fresh_name("ck2"))
        st.pc.append(z3.ForAll([k, k2], z3.Implies(z3.And(0 <= k, k < k2, k2 < n_res), f(k) < f(k2))))
        # completeness: every qualifying source index is selected
        j = z3.Int(T.fresh_name("cj"))
        st3 = st.fork()
        self.assign(g.target, at(j, st3), st3, node)
        conds_j = [self.truthy(st3, self.ev(c, st3)) for c in g.ifs]
        cond_j = z3.And(*conds_j) if conds_j else z3.BoolVal(True)
        st.pc.append(z3.ForAll([j], z3.Implies(z3.And(j >= 0, j < n_src, cond_j),
                                               z3.Exists([k], z3.And(k >= 0, k < n_res, f(k) == j)))))
        return res

    _comp_hint = None

    # spec expressions ------------------------------------------------------
    def spec_eval(self, st, src, binds=None, result=None, old_state=None) -> V:
        """Evaluate a contract expression (Python syntax + old/result/forall/implies/ghost)."""
        tree = ast.parse(src.strip(), mode="eval").body if isinstance(src, str) else src
        saved = (self.spec, self.result, self.old_env)
        st2 = st.fork()
        if binds is not None:
            st2.env = dict(binds)
        st2.guards = []
        self.spec = True
        if result is not None:
            self.result = result
        if old_state is not None:
            self.old_env = old_state
        try:
            return self.ev(tree, st2)
        finally:
            self.spec, self.result, self.old_env = saved

    def spec_bool(self, st, src, binds=None, result=None, old_state=None):
        v = self.spec_eval(st, src, binds, result, old_state)
        return self.truthy(st, v)

    # ----------------------------------------------------------------------
    # statements

    def run_block(self, stmts, st) -> list[Outcome]:
        outs = [Outcome("normal", st)]
        for s in stmts:
            nxt = []
            for o in outs:
                if o.kind != "normal":
                    nxt.append(o)
                    continue
                nxt.extend(self.run_stmt(s, o.st))
            outs = nxt
            self.npaths = max(self.npaths, len(outs))
            if len(outs) > self.path_limit:
                raise Unsupported(f"path explosion (> {self.path_limit})", s)
        return outs

    def run_stmt(self, s, st) -> list[Outcome]:
        m = getattr(self, "st_" + type(s).__name__, None)
        if m is None:
            raise Unsupported(f"statement {type(s).__name__}", s)
        st.pending = []
        if self.cut_map and not self.spec:
            for key, clauses in self.cut_map.get(id(s), ()):
                self.cuts_seen = getattr(self, "cuts_seen", set()) | {key}
                for lab, src in clauses:
                    g = self.spec_bool(st, src, dict(st.env), old_state=self.entry_state)
                    self.oblige(st, "cut", f"{lab}@{getattr(s, 'lineno', 0)}", g, s, src)
                    st.pc.append(g)
        outs = m(s, st)
        return outs

    def _flush_pending(self, st, outs_normal):
        """Split on exceptions that contract calls inside the statement may have raised."""
        if not st.pending:
            return outs_normal
        res = []
        pend = st.pending
        st.pending = []
        none_raised = []
        for ent in pend:
            cond, exc = ent[0], ent[1]
            extra = list(ent[2]) if len(ent) > 2 else []
            h = st.pc + none_raised + [cond]
            if self.feasible(h):
                s2 = st.fork()
                s2.pc = h + extra
                s2.conds = s2.conds + none_raised + [cond]
                s2.trace.append(f"!{exc}")
                res.append(Outcome("raise", s2, exc=exc))
            none_raised.append(z3.Not(cond))
        for o in outs_normal:
            o.st.pc = o.st.pc + none_raised
            o.st.conds = o.st.conds + none_raised
            res.append(o)
        return res

    def st_Expr(self, s, st):
        if isinstance(s.value, ast.Constant):
            return [Outcome("normal", st)]
        if isinstance(s.value, ast.Call) and ast.unparse(s.value.func) == "sys.exit":
            code = self.ev(s.value.args[0], st) if s.value.args else T.mk_int(0)
            st.env["$exit_code"] = code
            return self._flush_pending(st, [Outcome("raise", st, exc="SystemExit")])
        self.ev(s.value, st)
        return self._flush_pending(st, [Outcome("normal", st)])

    def st_Pass(self, s, st):
        return [Outcome("normal", st)]

    def st_Import(self, s, st):
        return [Outcome("normal", st)]

    st_ImportFrom = st_Import

    def st_Assert(self, s, st):
        c = self.truthy(st, self.ev(s.test, st))
        self.oblige(st, "safety", f"assert@{s.lineno}", c, s, "assert statement")
        st.pc.append(c)
        return self._flush_pending(st, [Outcome("normal", st)])

    def st_Return(self, s, st):
        v = self._ev_rhs(s.value, st, self.c.ret) if s.value is not None else T.NONE
        return self._flush_pending(st, [Outcome("return", st, val=v)])

    def st_Raise(self, s, st):
        name = getattr(st, "cur_exc", None) or "Exception"      # bare `raise` re-raises the handled exception
        if s.exc is not None:
            e = s.exc
            if isinstance(e, ast.Call):
                e = e.func
            if isinstance(e, ast.Name):
                name = e.id
            elif isinstance(e, ast.Attribute):
                name = e.attr
        return [Outcome("raise", st, exc=name)]

    def st_Break(self, s, st):
        return [Outcome("break", st)]

    def st_Continue(self, s, st):
        return [Outcome("continue", st)]

    def st_AnnAssign(self, s, st):
        if s.value is None:
            return [Outcome("normal", st)]
        hint = self.c.locals.get(s.target.id) if isinstance(s.target, ast.Name) else None
        if isinstance(s.target, ast.Attribute):
            try:
                b = self.ev(s.target.value, st)
                if isinstance(b.ty, T.Ref):
                    hint = REG.field_ty(s.target.attr, b.ty.cls)
            except Unsupported:
                hint = None
        v = self._ev_rhs(s.value, st, hint)
        self.assign(s.target, v, st, s)
        return self._flush_pending(st, [Outcome("normal", st)])

    def _ev_rhs(self, value, st, hint=None):
        # container literals take their element type from the declared local type
        if isinstance(value, ast.List) and isinstance(hint, T.List):
            self._pending_list_type = hint.t
            self._pending_region = hint.region
            try:
                v = self.ev(value, st)
            finally:
                self._pending_list_type = None
                self._pending_region = None
            v = V(hint, v.terms)
            if not value.elts:
                for k in hint.ghost_sum:
                    self.h.list_set_sum(st, hint, v.t, k, z3.RealVal(0))
            elif hint.ghost_sum:
                raise Unsupported("non-empty list literal for a list with ghost sum", value)
            return v
        if isinstance(value, ast.ListComp):
            self._comp_hint = hint
            try:
                return self.ev(value, st)
            finally:
                self._comp_hint = None
        if isinstance(value, ast.Dict) and isinstance(hint, T.Dict):
            self._pending_dict_type = hint
            try:
                return self.ev(value, st)
            finally:
                self._pending_dict_type = None
        if (isinstance(value, ast.BinOp) and isinstance(value.op, ast.Mult) and isinstance(value.left, ast.List)
                and len(value.left.elts) == 1):
            # [init] * n
            init = self.ev(value.left.elts[0], st)
            n = self.ev(value.right, st)
            ety = hint.t if isinstance(hint, T.List) else init.ty
            lty = hint if isinstance(hint, T.List) else T.List(ety)
            init = T.coerce(init, ety)
            r = self.new_obj(st, "list")
            self.h.list_set_len(st, r, z3.If(n.t < 0, 0, n.t), lty)
            for k, srt in enumerate(ety.sorts()):
                key = lty.k_elem(k)
                a = self.h.arr(st, key, [Obj, z3.IntSort()], srt)
                st.heap[key] = z3.Store(a, r, z3.K(z3.IntSort(), init.terms[k]))
            return V(lty, [r])
        return self.ev(value, st)

    def st_Assign(self, s, st):
        hint = None
        if len(s.targets) == 1:
            tg = s.targets[0]
            if isinstance(tg, ast.Name):
                hint = self.c.locals.get(tg.id)
            elif isinstance(tg, ast.Attribute):
                try:
                    b = self.ev(tg.value, st)
                    if isinstance(b.ty, T.Ref):
                        hint = REG.field_ty(tg.attr, b.ty.cls)
                except Unsupported:
                    hint = None
            elif isinstance(tg, ast.Subscript) and isinstance(s.value, (ast.List, ast.Dict)):
                try:
                    b = T.opt_inner(self.ev(tg.value, st.fork()))
                    if isinstance(b.ty, T.Dict):
                        hint = b.ty.v
                    elif isinstance(b.ty, T.List):
                        hint = b.ty.t
                except Unsupported:
                    hint = None
        v = self._ev_rhs(s.value, st, hint)
        for tg in s.targets:
            self.assign(tg, v, st, s)
        return self._flush_pending(st, [Outcome("normal", st)])

    def st_AugAssign(self, s, st):
        cur = self.ev(s.target, st)
        rhs = self.ev(s.value, st)
        v = self.binop(s.op, cur, rhs, st, s)
        self.assign(s.target, v, st, s)
        return self._flush_pending(st, [Outcome("normal", st)])

    def assign(self, tg, v: V, st, node):
        if isinstance(tg, ast.Name):
            n = tg.id
            dty = self.c.locals.get(n)
            cty = self.ctypes.get(n)
            if cty in ("int", "bint") and v.ty in (T.Int, T.Real, T.Bool):
                x = self.num(v)
                if not z3.is_int(x):
                    x = real_trunc(x)
                if cty == "int" and not self.spec:
                    self.oblige(st, "safety", f"c-int-range({n})@{getattr(node, 'lineno', 0)}",
                                z3.And(x >= INT32_MIN, x <= INT32_MAX), node, "C int overflow")
                v = V(T.Int, [x], cint=True) if cty == "int" else T.mk_bool(x != 0) if v.ty is not T.Bool else v
            elif cty == "double" and v.ty in (T.Int, T.Real, T.Bool):
                v = T.mk_real(self.num(v))
            if dty is not None:
                v2 = self.coerce_store(st, v, dty, f"local {n}")
                v2.cint = v.cint
                v = v2
            st.env[n] = v
            return
        if isinstance(tg, (ast.Tuple, ast.List)):
            if isinstance(v.ty, T.Opt) and isinstance(v.ty.t, T.Tuple):
                if not self.spec:
                    self.oblige(st, "safety", f"none-unpack@{getattr(node, 'lineno', 0)}", z3.Not(v.terms[0]), node,
                                "unpacking None raises TypeError")
                v = T.opt_inner(v)
            if not isinstance(v.ty, T.Tuple) or len(v.ty.ts) != len(tg.elts):
                raise Unsupported("tuple unpacking mismatch", node)
            for t, item in zip(tg.elts, T.tuple_items(v)):
                self.assign(t, item, st, node)
            return
        if isinstance(tg, ast.Attribute):
            base = self.ev(tg.value, st)
            if isinstance(base.ty, T.Opt):
                self.oblige(st, "safety", f"none-setattr@{getattr(node, 'lineno', 0)}", z3.Not(base.terms[0]), node)
                base = T.opt_inner(base)
            if not isinstance(base.ty, T.Ref):
                raise Unsupported(f"attribute store on {base.ty}", node)
            fk = REG.field_key(tg.attr, base.ty.cls)
            if fk is None:
                raise Unsupported(f"field {base.ty.cls}.{tg.attr} has no declared type", node)
            self.h.set_field(st, base.t, fk[0], fk[1], v)
            return
        if isinstance(tg, ast.Subscript):
            base = self.ev(tg.value, st)
            if isinstance(base.ty, T.Opt):
                self.oblige(st, "safety", f"none-setitem@{getattr(node, 'lineno', 0)}", z3.Not(base.terms[0]), node)
                base = T.opt_inner(base)
            if isinstance(base.ty, T.List):
                i = self.ev(tg.slice, st)
                eff = self.list_index(st, base, i, node, write=True)
                old, new = self.h.list_put(st, base.ty, base.t, eff, v)
                for k in base.ty.ghost_sum:
                    self.h.list_set_sum(st, base.ty, base.t, k,
                                        self.h.list_sum(st, base.ty, base.t, k) - to_real(old.terms[k]) + to_real(new.terms[k]))
                return
            if isinstance(base.ty, T.Dict):
                kv = self.ev(tg.slice, st)
                if isinstance(kv.ty, T.Opt) and not isinstance(base.ty.k, T.Opt):
                    self.oblige(st, "safety", f"none-key-store@{getattr(node, 'lineno', 0)}", z3.Not(kv.terms[0]), node,
                                "None used as a key of a typed dict")
                    kv = T.opt_inner(kv)
                k = T.coerce(kv, base.ty.k)
                self.h.dict_put(st, base.ty, base.t, k.t, v)
                return
            if isinstance(base.ty, T.Ref):
                si = REG.classes.get(base.ty.cls, {}).get("setitem")
                if si:
                    return si(self, st, base, tg.slice, v, node)
            raise Unsupported(f"subscript store on {base.ty}", node)
        raise Unsupported("assignment target", node)

    def st_If(self, s, st):
        c = self.truthy(st, self.ev(s.test, st))
        pre = self._flush_pending(st, [Outcome("normal", st)])
        outs = []
        for o in pre:
            if o.kind != "normal":
                outs.append(o)
                continue
            st0 = o.st
            cs = z3.simplify(c)
            b1 = b2 = None
            if not z3.is_false(cs):
                h = st0.pc + [c]
                if z3.is_true(cs) or self.feasible(h):
                    s1 = st0.fork()
                    if not z3.is_true(cs):
                        s1.pc.append(c)
                        s1.conds.append(c)
                    s1.trace.append("T")
                    b1 = self.run_block(s.body, s1)
            if not z3.is_true(cs):
                h = st0.pc + [z3.Not(c)]
                if z3.is_false(cs) or self.feasible(h):
                    s2 = st0.fork()
                    if not z3.is_false(cs):
                        s2.pc.append(z3.Not(c))
                        s2.conds.append(z3.Not(c))
                    s2.trace.append("F")
                    b2 = self.run_block(s.orelse, s2)
            merged = None
            nm = self.c.no_merge
            if nm is True or (nm and ast.unparse(s.test) in nm):
                pass
            elif b1 is not None and b2 is not None and len(b1) == 1 and len(b2) == 1 \
                    and b1[0].kind == "normal" and b2[0].kind == "normal":
                merged = self._merge(st0, c, b1[0].st, b2[0].st)
            if merged is not None:
                outs.append(Outcome("normal", merged))
            else:
                outs.extend(b1 or [])
                outs.extend(b2 or [])
        return outs

    def _merge(self, st0, c, sa, sb):
        """Join two straight-line branch results into one state (values become ite terms)."""
        n0 = len(st0.pc)
        if sa.pc[:n0] != st0.pc or sb.pc[:n0] != st0.pc:
            if not (all(x is y or x.eq(y) for x, y in zip(sa.pc[:n0], st0.pc)) and
                    all(x is y or x.eq(y) for x, y in zip(sb.pc[:n0], st0.pc))):
                return None
        m = st0.fork()
        m.trace = list(st0.trace) + ["m"]
        if sa.epoch != st0.epoch or sb.epoch != st0.epoch:
            Exec._epoch_ctr[0] += 1
            m.epoch = Exec._epoch_ctr[0]
        m.now = sa.now if sa.now.eq(sb.now) else z3.If(c, sa.now, sb.now)
        seen_b = {b.get_id() for b in st0.born}
        m.born = list(st0.born) + [b for b in sa.born + sb.born if b.get_id() not in seen_b]
        extra_a = [p for p in sa.pc[n0:] if not p.eq(c)]
        extra_b = [p for p in sb.pc[n0:] if not p.eq(z3.Not(c))]
        for p in extra_a:
            m.pc.append(z3.Implies(c, p))
        for p in extra_b:
            m.pc.append(z3.Implies(z3.Not(c), p))
        names = set(sa.env) | set(sb.env)
        env = {}
        for n in names:
            va, vb = sa.env.get(n), sb.env.get(n)
            if va is None or vb is None:
                continue          # defined on one branch only: unusable afterwards unless re-assigned
            if va is vb:
                env[n] = va
                continue
            try:
                if isinstance(va.ty, T.Fn) or isinstance(vb.ty, T.Fn):
                    return None
                v = T.ite(c, va, vb)
                v.cint = va.cint and vb.cint
                env[n] = v
            except T.TypeErr:
                return None
        m.env = env
        heap = {}
        for k in set(sa.heap) | set(sb.heap):
            ha, hb = sa.heap.get(k), sb.heap.get(k)
            if ha is None or hb is None:
                other = ha if ha is not None else hb
                init = z3.Const("H0!" + k, other.sort()) if not k.startswith("$epoch") else None
                if init is None:
                    continue
                ha = ha if ha is not None else init
                hb = hb if hb is not None else init
            heap[k] = ha if ha.eq(hb) else z3.If(c, ha, hb)
        m.heap = heap
        return m

    def st_With(self, s, st):
        suppress = False
        for item in s.items:
            ce = item.context_expr
            txt = ast.unparse(ce)
            if txt.startswith("contextlib.suppress"):
                suppress = True
                continue
            # a resource manager: evaluate the expression (it may raise through its contract), bind the name;
            # __exit__ is assumed to have no effect on the modelled state (closing a file)
            v = self.ev(ce, st)
            if item.optional_vars is not None:
                self.assign(item.optional_vars, v, st, s)
        pre = self._flush_pending(st, [Outcome("normal", st)])
        res = []
        for o0 in pre:
            if o0.kind != "normal":
                res.append(o0)
                continue
            for o in self.run_block(s.body, o0.st):
                if suppress and o.kind == "raise" and o.exc != "SystemExit":
                    res.append(Outcome("normal", o.st))
                else:
                    res.append(o)
        return res

    def st_Try(self, s, st):
        outs = self.run_block(s.body, st)
        res = []
        for o in outs:
            if o.kind == "raise":
                handled = False
                for h in s.handlers:
                    names = []
                    if h.type is None:
                        names = ["*"]
                    elif isinstance(h.type, ast.Tuple):
                        names = [ast.unparse(e).split(".")[-1] for e in h.type.elts]
                    else:
                        names = [ast.unparse(h.type).split(".")[-1]]
                    if _handler_matches(names, o.exc):
                        st2 = o.st
                        if h.name:
                            st2.env[h.name] = T.fresh(T.Ref("Exception"), "exc")
                        st2.cur_exc = o.exc
                        for ho in self.run_block(h.body, st2):
                            ho.st.cur_exc = None if ho.kind != "raise" else getattr(ho.st, "cur_exc", None)
                            res.append(ho)
                        handled = True
                        break
                if not handled:
                    res.append(o)
            elif o.kind == "normal" and s.orelse:
                res.extend(self.run_block(s.orelse, o.st))
            else:
                res.append(o)
        if s.finalbody:
            fin = []
            for o in res:
                for fo in self.run_block(s.finalbody, o.st):
                    if fo.kind == "normal":
                        fin.append(Outcome(o.kind, fo.st, o.val, o.exc))
                    else:
                        fin.append(fo)
            res = fin
        return res

    def st_FunctionDef(self, s, st):
        # nested function: made available for inlined calls
        self.nested = getattr(self, "nested", {})
        self.nested[s.name] = s
        return [Outcome("normal", st)]

    def st_For(self, s, st):
        from .loops import exec_for
        return exec_for(self, s, st)

    def st_While(self, s, st):
        from .loops import exec_while
        return exec_while(self, s, st)

    def st_Delete(self, s, st):
        raise Unsupported("del", s)
