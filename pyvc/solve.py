"""Discharging obligations: goal skolemisation, hypothesis instantiation, z3 (API) with cvc5 as second opinion."""
from __future__ import annotations
import os
import subprocess
import tempfile
import time
import multiprocessing as mp
import z3
from . import types as T


# ---- formula preparation ------------------------------------------------------------
def flatten_and(e, out):
    if z3.is_and(e):
        for c in e.children():
            flatten_and(c, out)
    else:
        out.append(e)


def split_goal(goal):
    """Decompose goal into [(extra_hyps, atomic_goal)] through And / Implies / ForAll (skolemised)."""
    res = []

    def rec(g, hyps):
        g = g
        if z3.is_and(g):
            for c in g.children():
                rec(c, hyps)
            return
        if z3.is_implies(g):
            a, b = g.children()
            rec(b, hyps + [a])
            return
        if z3.is_quantifier(g) and g.is_forall():
            n = g.num_vars()
            consts = [z3.Const(T.fresh_name("sk_" + g.var_name(i)), g.var_sort(i)) for i in range(n)]
            body = z3.substitute_vars(g.body(), *reversed(consts))
            rec(body, hyps)
            return
        if z3.is_not(g):
            inner = g.children()[0]
            if z3.is_quantifier(inner) and inner.is_exists():
                n = inner.num_vars()
                consts = [z3.Const(T.fresh_name("sk_" + inner.var_name(i)), inner.var_sort(i)) for i in range(n)]
                body = z3.substitute_vars(inner.body(), *reversed(consts))
                rec(z3.Not(body), hyps)
                return
            if z3.is_or(inner):
                for c in inner.children():
                    rec(z3.Not(c), hyps)
                return
        res.append((hyps, g))

    rec(goal, [])
    return res


def _ground_index_terms(exprs, limit=60):
    """Ground terms that occur as array indices / UF arguments, by sort; and, under key ('arr', array-sort),
    the ground index terms used with arrays of that sort (trigger-style candidate selection)."""
    seen = set()
    by_sort = {}

    def add(t, arr_sort=None):
        k = (t.sort().name(), t.get_id())
        if k not in seen:
            seen.add(k)
            by_sort.setdefault(t.sort().name(), []).append(t)
        if arr_sort is not None:
            k2 = ("arr", arr_sort, t.get_id())
            if k2 not in seen:
                seen.add(k2)
                by_sort.setdefault(("arr", arr_sort), []).append(t)

    visited = set()

    def has_var(t):
        # bound variable inside?
        stack = [t]
        while stack:
            x = stack.pop()
            if z3.is_var(x):
                return True
            if z3.is_quantifier(x):
                return True
            stack.extend(x.children())
        return False

    def walk(e):
        if e.get_id() in visited:
            return
        visited.add(e.get_id())
        if z3.is_quantifier(e):
            walk(e.body())
            return
        if z3.is_app(e):
            d = e.decl()
            kind = d.kind()
            ch = e.children()
            if kind == z3.Z3_OP_SELECT:
                for idx in ch[1:]:
                    if not has_var(idx):
                        add(idx, str(ch[0].sort()))
            elif kind == z3.Z3_OP_STORE:
                for idx in ch[1:-1]:
                    if not has_var(idx):
                        add(idx, str(ch[0].sort()))
            elif kind == z3.Z3_OP_UNINTERPRETED:
                if ch:
                    for pos, a in enumerate(ch):
                        if not has_var(a) and not z3.is_array(a):
                            add(a, f"uf:{d.name()}:{pos}")
                else:
                    if not z3.is_array(e):
                        add(e)
            for c in ch:
                walk(c)

    for e in exprs:
        walk(e)
    return {k: v[:limit] for k, v in by_sort.items()}


def _is_bool_connective(e):
    return z3.is_and(e) or z3.is_or(e) or z3.is_not(e) or z3.is_implies(e)


def norm_bool(e):
    """Rewrite boolean ==, ite and xor whose operands contain quantifiers into and/or/implies, so that every
    quantifier gets a definite polarity."""
    if not z3.is_bool(e) or not _has_quant(e):
        return e
    if z3.is_quantifier(e):
        return e
    ch = e.children()
    if z3.is_eq(e) and z3.is_bool(ch[0]):
        a, b = norm_bool(ch[0]), norm_bool(ch[1])
        return z3.And(z3.Implies(a, b), z3.Implies(b, a))
    if z3.is_app_of(e, z3.Z3_OP_ITE):
        c, a, b = norm_bool(ch[0]), norm_bool(ch[1]), norm_bool(ch[2])
        return z3.And(z3.Implies(c, a), z3.Implies(z3.Not(c), b))
    if z3.is_distinct(e) and len(ch) == 2 and z3.is_bool(ch[0]):
        a, b = norm_bool(ch[0]), norm_bool(ch[1])
        return z3.And(z3.Or(a, b), z3.Or(z3.Not(a), z3.Not(b)))
    if z3.is_and(e):
        return z3.And(*[norm_bool(c) for c in ch])
    if z3.is_or(e):
        return z3.Or(*[norm_bool(c) for c in ch])
    if z3.is_not(e):
        return z3.Not(norm_bool(ch[0]))
    if z3.is_implies(e):
        return z3.Implies(norm_bool(ch[0]), norm_bool(ch[1]))
    return e


def skolemize(e, pos=True):
    """Replace quantifiers of existential force (positive Exists, negative ForAll) by fresh constants.
    Equisatisfiable for assertions; leaves universal-force quantifiers in place."""
    if z3.is_quantifier(e):
        if e.is_lambda():
            return e
        existential_force = (e.is_exists() and pos) or (e.is_forall() and not pos)
        if existential_force:
            n = e.num_vars()
            consts = [z3.Const(T.fresh_name("sk_" + e.var_name(i)), e.var_sort(i)) for i in range(n)]
            body = z3.substitute_vars(e.body(), *reversed(consts))
            return skolemize(body, pos)
        # universal force: skolemize inside the body only where it is safe (no dependence on bound vars)
        return e
    if z3.is_and(e):
        return z3.And(*[skolemize(c, pos) for c in e.children()])
    if z3.is_or(e):
        return z3.Or(*[skolemize(c, pos) for c in e.children()])
    if z3.is_not(e):
        return z3.Not(skolemize(e.children()[0], not pos))
    if z3.is_implies(e):
        a, b = e.children()
        return z3.Implies(skolemize(a, not pos), skolemize(b, pos))
    return e


def _has_quant(e, seen=None):
    stack = [e]
    seen = set()
    while stack:
        x = stack.pop()
        if x.get_id() in seen:
            continue
        seen.add(x.get_id())
        if z3.is_quantifier(x):
            return True
        stack.extend(x.children())
    return False


def _var_array_sorts(q):
    """For each de-Bruijn index of quantifier q: trigger keys of the positions where the variable occurs
    directly -- the sort of an array it indexes, or (function name, argument position) of an uninterpreted
    function it is an argument of. Empty -> no trigger, fall back to all ground terms of the sort."""
    out = {}
    stack = [(q.body(), 0)]
    seen = set()
    while stack:
        x, depth = stack.pop()
        key = (x.get_id(), depth)
        if key in seen:
            continue
        seen.add(key)
        if z3.is_quantifier(x):
            stack.append((x.body(), depth + x.num_vars()))
            continue
        if z3.is_app(x):
            ch = x.children()
            if x.decl().kind() == z3.Z3_OP_SELECT:
                for idx in ch[1:]:
                    if z3.is_var(idx):
                        vi = z3.get_var_index(idx) - depth
                        if vi >= 0:
                            out.setdefault(vi, set()).add(str(ch[0].sort()))
            elif x.decl().kind() == z3.Z3_OP_UNINTERPRETED and ch:
                for pos, a in enumerate(ch):
                    if z3.is_var(a):
                        vi = z3.get_var_index(a) - depth
                        if vi >= 0:
                            out.setdefault(vi, set()).add(f"uf:{x.decl().name()}:{pos}")
            for c in ch:
                stack.append((c, depth))
    return out


class Budget(Exception):
    pass


_budget = [0]


def expand_universals(e, cands, pos=True, cap=60):
    """Replace universal-force quantifiers by the conjunction (disjunction under negation) of their ground
    instances at the candidate terms. Only weakens an assertion -> sound for `unsat`."""
    if z3.is_quantifier(e):
        if e.is_lambda():
            return e
        universal_force = (e.is_forall() and pos) or (e.is_exists() and not pos)
        if not universal_force:
            return e
        n = e.num_vars()
        pools = []
        trig = _var_array_sorts(e)
        for i in range(n):
            srts = trig.get(n - 1 - i)
            if srts:
                pool = []
                ids = set()
                for a_s in srts:
                    for t in cands.get(("arr", a_s), []):
                        if t.get_id() not in ids and t.sort() == e.var_sort(i):
                            ids.add(t.get_id())
                            pool.append(t)
                pools.append(pool)
            else:
                pools.append(cands.get(e.var_sort(i).name(), []))
        if any(not p for p in pools):
            return z3.BoolVal(True) if pos else z3.BoolVal(False)
        combos = [[]]
        for p in pools:
            combos = [c + [t] for c in combos for t in p]
            if len(combos) > cap:
                combos = combos[:cap]
        insts = []
        _budget[0] -= len(combos)
        if _budget[0] < 0:
            raise Budget()
        for combo in combos:
            body = z3.substitute_vars(e.body(), *reversed(combo))
            body = skolemize(norm_bool(body), pos)
            insts.append(expand_universals(body, cands, pos, cap))
        if pos:
            return z3.And(*insts) if insts else z3.BoolVal(True)
        return z3.Or(*insts) if insts else z3.BoolVal(False)
    if not _has_quant(e):
        return e
    if z3.is_and(e):
        return z3.And(*[expand_universals(c, cands, pos, cap) for c in e.children()])
    if z3.is_or(e):
        return z3.Or(*[expand_universals(c, cands, pos, cap) for c in e.children()])
    if z3.is_not(e):
        return z3.Not(expand_universals(e.children()[0], cands, not pos, cap))
    if z3.is_implies(e):
        a, b2 = e.children()
        return z3.Implies(expand_universals(a, cands, not pos, cap), expand_universals(b2, cands, pos, cap))
    return e      # quantifier under ite / iff: left to the solver


def instantiate(assertions, rounds=2):
    """assertions (hypotheses + negated goal) -> (instantiated assertions, skolemised-only assertions, had_quant)"""
    sk = [skolemize(norm_bool(a), True) for a in assertions]
    if not any(_has_quant(a) for a in sk):
        return sk, None
    out = sk
    for _ in range(rounds):
        cands = _ground_index_terms(out if out is not sk else [a for a in sk])
        _budget[0] = 4000
        try:
            out = [expand_universals(a, cands, True) for a in sk]
        except Budget:
            return None, sk
    return out, sk


# ---- solving --------------------------------------------------------------------------
def _to_smt2(assertions, probes=None):
    s = z3.Solver()
    for a in assertions:
        s.add(a)
    if probes:
        for name, term in probes.items():
            c = z3.Const("probe!" + name, term.sort())
            s.add(c == term)
    return s.to_smt2()


def _worker(task):
    oid, text_raw, _unused, timeout_ms, use_cvc5 = task
    t0 = time.time()
    res = {"id": oid, "status": "unknown", "backend": "z3", "model": None, "reason": ""}
    try:
        s0 = z3.Solver()
        s0.from_string(text_raw)
        flat = []
        for a in s0.assertions():
            flatten_and(a, flat)
        # stage 1: skolemise; quantifier-free queries go straight to the solver, quantified ones are first
        # tried with E-matching only (no model-based instantiation): fast, and `unsat` is all we need there
        sk = [skolemize(norm_bool(a), True) for a in flat]
        if any(_has_quant(a) for a in sk):
            for mbqi in (False, True):
                s1 = z3.Solver()
                s1.set("timeout", timeout_ms)
                s1.set("smt.mbqi", mbqi)
                for a in sk:
                    s1.add(a)
                r1 = s1.check()
                if r1 == z3.unsat:
                    res["status"] = "unsat"
                    res["backend"] = "z3+quantifiers" if mbqi else "z3+ematching"
                    res["time"] = time.time() - t0
                    return res
            inst, full = instantiate(flat)
            if inst is None:
                res["status"] = "unknown"
                res["reason"] = "not proved by E-matching (" + s1.reason_unknown() + "); instantiation budget exhausted"
                if use_cvc5:
                    r3 = _cvc5(_to_smt2(sk), timeout_ms)
                    if r3 == "unsat":
                        res["status"] = "unsat"
                        res["backend"] = "cvc5"
                res["time"] = time.time() - t0
                return res
        else:
            inst, full = sk, None
        text_inst = _to_smt2(inst)
        text_full = _to_smt2(full) if full is not None else None
        s = z3.Solver()
        s.set("timeout", timeout_ms)
        s.from_string(text_inst)
        r = s.check()
        if r == z3.unsat:
            res["status"] = "unsat"
        elif r == z3.sat and not _model_ok(s):
            res["status"] = "unknown"
            res["reason"] = "z3 answered sat but the model does not satisfy the query (incomplete nonlinear reasoning)"
        elif r == z3.sat:
            m = s.model()
            model = {}
            for d in m.decls():
                if d.arity() == 0:
                    try:
                        model[d.name()] = str(m[d])
                    except Exception:
                        pass
            res["model"] = model
            res["status"] = "sat"
            if text_full is not None:
                s2 = z3.Solver()
                s2.set("timeout", timeout_ms)
                s2.from_string(text_full)
                r2 = s2.check()
                if r2 == z3.unsat:
                    res["status"] = "unsat"
                    res["backend"] = "z3+quantifiers"
                    res["model"] = None
                elif r2 == z3.unknown:
                    res["reason"] = "sat under instantiated hypotheses; full quantified query unknown: " + s2.reason_unknown()
                    res["status"] = "sat-inst"
        else:
            res["reason"] = s.reason_unknown()
            if use_cvc5:
                r3 = _cvc5(text_full or text_inst, timeout_ms)
                if r3 in ("unsat", "sat"):
                    res["status"] = r3 if r3 == "unsat" else "unknown"   # cvc5 sat without model: keep undecided
                    res["backend"] = "cvc5"
                    if r3 == "sat":
                        res["reason"] += "; cvc5 answered sat (no model extracted)"
    except Exception as e:  # noqa
        res["status"] = "error"
        res["reason"] = f"{type(e).__name__}: {e}"
    res["time"] = time.time() - t0
    return res


def _model_ok(s):
    try:
        m = s.model()
        for a in s.assertions():
            v = m.eval(a, model_completion=True)
            if not z3.is_true(v):
                return False
        return True
    except Exception:
        return False


def _cvc5(text, timeout_ms):
    try:
        with tempfile.NamedTemporaryFile("w", suffix=".smt2", delete=False) as f:
            f.write("(set-logic ALL)\n" + text.replace("(check-sat)", "") + "\n(check-sat)\n")
            path = f.name
        p = subprocess.run(["/usr/bin/cvc5", f"--tlimit={timeout_ms}", path], capture_output=True, text=True,
                           timeout=timeout_ms / 1000 + 5)
        os.unlink(path)
        out = p.stdout.strip().split("\n")[0] if p.stdout.strip() else ""
        return out
    except Exception:
        return "unknown"


def cvc5_recheck(text, timeout_ms):
    return _cvc5(text, timeout_ms)


def prepare(obl, axioms=()):
    """obligation -> list of sub-queries (smt2 texts)."""
    tasks = []
    parts = split_goal(obl.goal)
    for k, (extra, g) in enumerate(parts):
        hyps = list(obl.hyps) + list(extra) + list(axioms)
        if z3.is_true(z3.simplify(g)):
            tasks.append((f"{obl.id}#{k}", None, None))
            continue
        text_raw = _to_smt2(hyps + [z3.Not(g)], obl.probes)
        tasks.append((f"{obl.id}#{k}", text_raw, None))
    return tasks


_pool = None


def pool():
    global _pool
    if _pool is None:
        # workers are recycled: a long-lived worker was once seen to fail re-parsing several queries in a row
        _pool = mp.get_context("fork").Pool(min(16, os.cpu_count() or 4), maxtasksperchild=48)
    return _pool


def discharge_all(obls, timeout_ms=10000, axioms=(), use_cvc5=True, parallel=True):
    """Returns {obl.id-with-suffix: result}. One obligation may be split into several sub-queries;
    the obligation is discharged iff all of them are unsat."""
    tasks = []
    owner = {}
    trivial = {}
    for idx, o in enumerate(obls):
        for (sid, ti, tf) in prepare(o, axioms):
            uid = f"{idx}:{sid}"
            owner[uid] = idx
            if ti is None:
                trivial[uid] = {"id": uid, "status": "unsat", "backend": "simplifier", "time": 0.0, "model": None,
                                "reason": ""}
            else:
                tasks.append((uid, ti, tf, timeout_ms, use_cvc5))
    results = dict(trivial)
    if tasks:
        if parallel and len(tasks) > 1:
            for r in pool().imap_unordered(_worker, tasks, chunksize=1):
                results[r["id"]] = r
        else:
            for t in tasks:
                r = _worker(t)
                results[r["id"]] = r
    per_obl = {}
    for uid, r in results.items():
        per_obl.setdefault(owner[uid], []).append(r)
    out = []
    for idx, o in enumerate(obls):
        rs = per_obl.get(idx, [])
        st = "unsat"
        for r in rs:
            if r["status"] in ("sat", "sat-inst"):
                st = r["status"] if st != "sat" else st
                if r["status"] == "sat":
                    st = "sat"
            elif r["status"] == "error" and st == "unsat":
                st = "error"
            elif r["status"] == "unknown" and st == "unsat":
                st = "unknown"
        out.append({"obl": o, "status": st, "parts": rs,
                    "time": sum(r["time"] for r in rs),
                    "backends": sorted({r["backend"] for r in rs})})
    return out
