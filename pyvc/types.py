"""Static types and symbolic values of the pyvc engine.

A value V = (ty, terms) where terms is the list of z3 terms given by flatten(ty).
Mutable containers (list, dict) and objects are references (sort Obj) into the
symbolic heap; their contents live in heap arrays (see engine.Heap).
"""
from __future__ import annotations
import z3

Obj = z3.DeclareSort("Obj")
StrS = z3.DeclareSort("Str")


class Ty:
    kind = "?"

    def __eq__(self, o):
        return isinstance(o, Ty) and self.sig() == o.sig()

    def __hash__(self):
        return hash(self.sig())

    def __repr__(self):
        return self.sig()

    def sig(self) -> str:
        return self.kind

    def sorts(self):
        raise NotImplementedError


class _Prim(Ty):
    def __init__(self, kind, sort):
        self.kind = kind
        self._sort = sort

    def sorts(self):
        return [self._sort] if self._sort is not None else []


Int = _Prim("Int", z3.IntSort())
Real = _Prim("Real", z3.RealSort())
Bool = _Prim("Bool", z3.BoolSort())
Str = _Prim("Str", z3.IntSort())    # strings are opaque values: literals map to distinct integer codes
NoneT = _Prim("None", None)
DT = _Prim("DT", z3.RealSort())      # datetime: seconds on the proleptic Gregorian line (naive)
TD = _Prim("TD", z3.RealSort())      # timedelta: seconds
Date = _Prim("Date", z3.IntSort())   # date: days since 1970-01-01


class Opt(Ty):
    kind = "Opt"

    def __init__(self, t):
        assert not isinstance(t, Opt)
        self.t = t

    def sig(self):
        return f"Opt[{self.t.sig()}]"

    def sorts(self):
        return [z3.BoolSort()] + self.t.sorts()


class Ref(Ty):
    kind = "Ref"

    def __init__(self, cls="object"):
        self.cls = cls

    def sig(self):
        return f"Ref[{self.cls}]"

    def sorts(self):
        return [Obj]


class List(Ty):
    """Heap list. `region` names the separate heap component the list lives in (Burstall-Bornat style):
    lists of different regions never alias. Regions are assigned from the field/attribute a list is stored in
    (assumption A-region: a container object is reachable through one field only)."""
    kind = "List"

    def __init__(self, t, ghost_sum=(), region=""):
        self.t = t
        self.ghost_sum = tuple(ghost_sum)   # flattened component indices with a maintained ghost sum
        self.region = region

    def sig(self):
        return f"List[{self.t.sig()}]"

    def sorts(self):
        return [Obj]

    def k_len(self):
        return f"$len@{self.region}"

    def k_elem(self, k):
        return f"$e@{self.region}:{self.t.sig()}#{k}"

    def k_sum(self, k):
        return f"$sum@{self.region}:{self.t.sig()}#{k}"

    def all_keys(self):
        return [self.k_len()] + [self.k_elem(k) for k in range(len(self.t.sorts()))] + [self.k_sum(k) for k in self.ghost_sum]

    def with_region(self, region):
        return List(with_region(self.t, region + ".e"), self.ghost_sum, region)


class Dict(Ty):
    kind = "Dict"

    def __init__(self, k, v, region=""):
        self.k = k
        self.v = v
        self.region = region

    def sig(self):
        return f"Dict[{self.k.sig()},{self.v.sig()}]"

    def sorts(self):
        return [Obj]

    def k_dom(self):
        return f"$dom@{self.region}:{self.k.sig()}"

    def k_val(self, j):
        return f"$dv@{self.region}:{self.k.sig()}:{self.v.sig()}#{j}"

    def all_keys(self):
        return [self.k_dom()] + [self.k_val(j) for j in range(len(self.v.sorts()))]

    def with_region(self, region):
        return Dict(self.k, with_region(self.v, region + ".v"), region)


def with_region(ty, region):
    """Assign heap regions to the container types inside ty (containers that already have one keep it)."""
    if isinstance(ty, (List, Dict)):
        return ty if ty.region else ty.with_region(region)
    if isinstance(ty, Opt):
        return Opt(with_region(ty.t, region))
    if isinstance(ty, Tuple):
        return Tuple(*[with_region(t, f"{region}.{i}") for i, t in enumerate(ty.ts)])
    return ty


REGIONS: dict = {}


def note_regions(ty):
    if isinstance(ty, (List, Dict)):
        REGIONS[ty.region] = ty
        note_regions(ty.t if isinstance(ty, List) else ty.v)
    elif isinstance(ty, Opt):
        note_regions(ty.t)
    elif isinstance(ty, Tuple):
        for t in ty.ts:
            note_regions(t)


class Tuple(Ty):
    kind = "Tuple"

    def __init__(self, *ts):
        self.ts = list(ts)

    def sig(self):
        return "Tuple[" + ",".join(t.sig() for t in self.ts) + "]"

    def sorts(self):
        out = []
        for t in self.ts:
            out += t.sorts()
        return out


class Struct(Tuple):
    """A dict literal with constant string keys, used as a record (e.g. the JSON document a renderer returns)."""
    kind = "Struct"

    def __init__(self, **fields):
        self.names = list(fields.keys())
        self.ts = list(fields.values())

    def sig(self):
        return "Struct[" + ",".join(f"{n}:{t.sig()}" for n, t in zip(self.names, self.ts)) + "]"


class Fn(Ty):
    """A callable parameter assumed pure: application is an uninterpreted function."""
    kind = "Fn"

    def __init__(self, args, ret, name=None):
        self.args = list(args)
        self.ret = ret
        self.name = name

    def sig(self):
        return f"Fn[{','.join(a.sig() for a in self.args)}->{self.ret.sig()}]"

    def sorts(self):
        return []


class V:
    __slots__ = ("ty", "terms", "cint", "fn")

    def __init__(self, ty, terms, cint=False, fn=None):
        self.ty = ty
        self.terms = list(terms)
        self.cint = cint      # value of C type int (Cython): truncating / and %
        self.fn = fn          # for Fn values: z3 function

    @property
    def t(self):
        assert len(self.terms) == 1, (self.ty, self.terms)
        return self.terms[0]

    def __repr__(self):
        return f"V({self.ty}, {self.terms})"


def mk_int(e, cint=False):
    if isinstance(e, int):
        e = z3.IntVal(e)
    return V(Int, [e], cint=cint)


def mk_real(e):
    if isinstance(e, (int, float)):
        e = z3.RealVal(repr(e) if isinstance(e, float) else e)
    if z3.is_int(e):
        e = z3.ToReal(e)
    return V(Real, [e])


def mk_bool(e):
    if isinstance(e, bool):
        e = z3.BoolVal(e)
    return V(Bool, [e])


NONE = V(NoneT, [])

_str_consts: dict[str, z3.ExprRef] = {}


def mk_str(s: str):
    if s not in _str_consts:
        import hashlib
        code = int(hashlib.sha1(s.encode()).hexdigest()[:14], 16) + 1000    # distinct literals -> distinct codes
        _str_consts[s] = z3.IntVal(code)
    return V(Str, [_str_consts[s]])


def str_axioms():
    cs = list(_str_consts.values())
    return [z3.Distinct(*cs)] if len(cs) > 1 else []


_fresh_ctr = [0]


def fresh_name(base):
    _fresh_ctr[0] += 1
    return f"{base}!{_fresh_ctr[0]}"


def fresh(ty: Ty, base="v") -> V:
    if isinstance(ty, Fn):
        name = ty.name or fresh_name(base)
        doms = []
        for a in ty.args:
            doms += a.sorts()
        rs = ty.ret.sorts()
        assert len(rs) == 1
        return V(ty, [], fn=z3.Function(name, *doms, rs[0]))
    terms = [z3.Const(fresh_name(f"{base}.{i}" if i else base), s) for i, s in enumerate(ty.sorts())]
    return V(ty, terms)


def default_terms(ty: Ty):
    out = []
    for s in ty.sorts():
        if s == z3.IntSort():
            out.append(z3.IntVal(0))
        elif s == z3.RealSort():
            out.append(z3.RealVal(0))
        elif s == z3.BoolSort():
            out.append(z3.BoolVal(False))
        else:
            out.append(z3.Const(f"dflt!{s}", s))
    return out


class TypeErr(Exception):
    pass


def coerce(v: V, ty: Ty) -> V:
    """Coerce value to declared type (numeric widening, None/T -> Opt[T])."""
    if v.ty == ty and not isinstance(ty, (List, Dict)):
        return v
    if ty is Real and v.ty is Int:
        return mk_real(v.t)
    if ty is Int and v.ty is Bool:
        return mk_int(z3.If(v.t, 1, 0))
    if ty is Real and v.ty is Bool:
        return mk_real(z3.If(v.t, 1, 0))
    if isinstance(ty, Opt):
        if v.ty is NoneT:
            return V(ty, [z3.BoolVal(True)] + default_terms(ty.t))
        if isinstance(v.ty, Opt):
            inner = coerce(V(v.ty.t, v.terms[1:]), ty.t)
            return V(ty, [v.terms[0]] + inner.terms)
        inner = coerce(v, ty.t)
        return V(ty, [z3.BoolVal(False)] + inner.terms)
    if isinstance(ty, Struct) and isinstance(v.ty, Struct) and ty.names == v.ty.names:
        out = []
        for sub, t in zip(tuple_items(v), ty.ts):
            out += coerce(sub, t).terms
        return V(ty, out)
    if isinstance(ty, Tuple) and isinstance(v.ty, Tuple) and len(ty.ts) == len(v.ty.ts):
        out = []
        for sub, t in zip(tuple_items(v), ty.ts):
            out += coerce(sub, t).terms
        return V(ty, out)
    if isinstance(ty, Ref) and isinstance(v.ty, Ref):
        return V(ty, v.terms)
    if isinstance(ty, (List, Dict)) and isinstance(v.ty, (List, Dict)) and ty.kind == v.ty.kind:
        if ty.region == v.ty.region:
            return V(ty, v.terms)
        if not ty.region:
            return v               # generic target: the value keeps its own region
        if not v.ty.region:
            raise TypeErr(f"container without region flows into region {ty.region} (declare its type)")
        raise TypeErr(f"container of region {v.ty.region} flows into region {ty.region}")
    if ty in (DT, TD) and v.ty in (Int, Real):
        return V(ty, [mk_real(v.t).t])
    raise TypeErr(f"cannot coerce {v.ty} to {ty}")


def tuple_items(v: V):
    assert isinstance(v.ty, Tuple)
    out = []
    i = 0
    for t in v.ty.ts:
        n = len(t.sorts())
        out.append(V(t, v.terms[i:i + n]))
        i += n
    return out


def mk_tuple(items):
    terms = []
    for it in items:
        terms += it.terms
    return V(Tuple(*[it.ty for it in items]), terms)


def opt_isnone(v: V):
    if v.ty is NoneT:
        return z3.BoolVal(True)
    if isinstance(v.ty, Opt):
        return v.terms[0]
    return z3.BoolVal(False)


def opt_inner(v: V) -> V:
    if isinstance(v.ty, Opt):
        return V(v.ty.t, v.terms[1:])
    return v


def join_ty(a: Ty, b: Ty) -> Ty:
    if a == b:
        return a
    if a is NoneT:
        return b if isinstance(b, Opt) else Opt(b)
    if b is NoneT:
        return a if isinstance(a, Opt) else Opt(a)
    if isinstance(a, Opt) or isinstance(b, Opt):
        ia = a.t if isinstance(a, Opt) else a
        ib = b.t if isinstance(b, Opt) else b
        return Opt(join_ty(ia, ib))
    nums = (Int, Real, Bool)
    if a in nums and b in nums:
        if Real in (a, b):
            return Real
        return Int
    if isinstance(a, Ref) and isinstance(b, Ref):
        return a
    if isinstance(a, (List, Dict)) and isinstance(b, (List, Dict)) and a.kind == b.kind and a.sig() == b.sig():
        if a.region == b.region or not b.region:
            return a
        if not a.region:
            return b
    raise TypeErr(f"cannot join {a} and {b}")


def ite(c, a: V, b: V) -> V:
    if z3.is_true(c):
        return a
    if z3.is_false(c):
        return b
    ty = join_ty(a.ty, b.ty)
    a2, b2 = coerce(a, ty), coerce(b, ty)
    return V(ty, [z3.If(c, x, y) for x, y in zip(a2.terms, b2.terms)], cint=a.cint and b.cint)
