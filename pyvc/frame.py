"""Frames: what a function may write. Used at call sites (havoc exactly this) and at the end of the callee's own
verification (everything written must be covered).

`modifies` entries of a contract:
    "Cls.field"            the field, for every object                       (coarse)
    "Cls.field@expr"       the field of the one object denoted by expr       (expr: contract expression, pre-state)
    "@attr" / "@attr@expr" property attribute (all scenarios), every node / one node
    "$region:R"            every container of heap region R (and nested)     (coarse)
    "$obj:expr"            the one container object denoted by expr (rows of all arrays of its region)
"""
from __future__ import annotations
import z3
from . import types as T
from .types import Obj
from .engine import REG, Unsupported, PRE_ALLOC


def ex_birth(o):
    from .engine import BIRTH
    return BIRTH(o)


class FrameSpec:
    def __init__(self):
        self.whole = set()
        self.objs = {}      # key -> [obj terms]


def resolve(ex, st, entries, binds) -> FrameSpec:
    from .calls import expand_keys
    fs = FrameSpec()
    for e in entries:
        if e.startswith("$obj:"):
            v0 = ex.spec_eval(st, e[5:], binds)
            cond = z3.Not(v0.terms[0]) if isinstance(v0.ty, T.Opt) else z3.BoolVal(True)   # None: nothing to write
            v = T.opt_inner(v0)
            if not isinstance(v.ty, (T.List, T.Dict)):
                raise Unsupported(f"modifies {e}: not a container")
            for k in v.ty.all_keys():
                fs.objs.setdefault(k, []).append((v.t, cond))
            continue
        if "@" in e[1:] and not e.startswith("$"):
            head, expr = e[0] + e[1:].split("@", 1)[0], e[1:].split("@", 1)[1]
            o0 = ex.spec_eval(st, expr, binds)
            cond = z3.Not(o0.terms[0]) if isinstance(o0.ty, T.Opt) else z3.BoolVal(True)
            o = T.opt_inner(o0)
            for k in expand_keys([head]):
                fs.objs.setdefault(k, []).append((o.t, cond))
            continue
        fs.whole.update(expand_keys([e]))
    return fs


def _key_array(ex, st, key):
    from .calls import _key_sort
    if key in st.heap:
        return st.heap[key]
    return z3.Const("H0!" + key, _key_sort(key))


def havoc(ex, st, fs: FrameSpec):
    from .calls import _havoc_key
    for k in sorted(fs.whole):
        _havoc_key(ex, st, k)
    for k, objs in fs.objs.items():
        if k in fs.whole:
            continue
        arr = _key_array(ex, st, k)
        for o, cond in objs:
            row = z3.Const(T.fresh_name("hv.row"), arr.sort().range())
            from .engine import born_before
            n1 = ex.advance_time(st)
            bb = born_before(row, n1) if z3.is_array(row) else (None if row.sort() != Obj else (ex_birth(row) < n1))
            if bb is not None:
                st.born.append(bb)
            if not z3.is_true(cond):
                row = z3.If(cond, row, z3.Select(arr, o))
            arr = z3.Store(arr, o, row)
        st.heap[k] = arr
        ex.bump(st)


def auto_allowed(key):
    """Regions of locals / untyped fresh containers are private to the callee."""
    if key.startswith("$") and "@" in key:
        region = key.split("@", 1)[1].split(":", 1)[0]
        if "#" in region:
            region = region.split("#")[0]
        return region == "" or region.startswith("local:")
    return False


def check(ex, entry_state, outs, c, entry_env):
    """Obligations: every heap array written on some path is covered by the contract's modifies."""
    fs = resolve(ex, entry_state, c.modifies, entry_env)
    for o in outs:
        if o.kind not in ("normal", "return", "raise"):
            continue
        for k, term in o.st.heap.items():
            if k.startswith("$epoch") or k.startswith("$bump") or auto_allowed(k) or k in fs.whole:
                continue
            init = z3.Const("H0!" + k, term.sort())
            if term.eq(init):
                continue
            q = z3.Const("fr_o", Obj)
            allowed = fs.objs.get(k, [])
            cond = z3.And(PRE_ALLOC(q), *[z3.Or(q != a, z3.Not(c0)) for a, c0 in allowed])
            goal = z3.ForAll([q], z3.Implies(cond, z3.Select(term, q) == z3.Select(init, q)))
            ex.oblige(o.st, "frame", f"writes:{k.split('#')[0]}", goal, None,
                      f"{k} is written outside the contract's modifies clause")
