"""String model (strings are opaque values in the engine; literals are distinct constants).

Only the operations that occur in the reference resolver are given meaning, through uninterpreted functions and
ground instances of axioms at the terms that occur (same scheme as the ISO-calendar model):

    str_bangs(s)   number of leading '!' characters of s          (spec: uf_bangs)
    str_nobang(s)  s without its leading '!' characters           (spec: uf_nobang)
    str_tail(s)    s[1:]
    s.startswith('!')  <=>  str_bangs(s) > 0
    S1  str_bangs(s) >= 0
    S2  str_bangs(s) > 0  ==>  str_bangs(s[1:]) == str_bangs(s) - 1  and  str_nobang(s[1:]) == str_nobang(s)
    S3  str_bangs(s) == 0 ==>  str_nobang(s) == s
    S4  str_bangs(str_nobang(s)) == 0
    S5  str_bangs('') == 0
    s.split(sep) (sep a literal): a list that is a function of s, with at least one element   (spec: uf_split_<sep>)

`validate()` compares S1-S5 and the split fact with CPython on an enumerated set of strings. Every other string
operation stays uninterpreted (lower/upper/strip) or unsupported.
"""
from __future__ import annotations
import z3
from . import types as T
from .types import V
from .engine import Unsupported

BANGS = z3.Function("uf_bangs", z3.IntSort(), z3.IntSort())
NOBANG = z3.Function("uf_nobang", z3.IntSort(), z3.IntSort())
TAIL = z3.Function("str_tail", z3.IntSort(), z3.IntSort())
SPLIT_REGION = "strparts"


def _note(ex, term):
    lst = getattr(ex, "str_terms", None)
    if lst is None:
        lst = ex.str_terms = []
    if not any(t.eq(term) for t in lst):
        lst.append(term)


def startswith(ex, base, lit):
    if lit != "!":
        fn = z3.Function("uf_startswith_" + str(abs(hash(lit)) % 10**8), z3.IntSort(), z3.BoolSort())
        return T.mk_bool(fn(base.t))
    _note(ex, base.t)
    return T.mk_bool(BANGS(base.t) > 0)


def tail(ex, base):
    _note(ex, base.t)
    t = TAIL(base.t)
    _note(ex, t)
    return V(T.Str, [t])


def split(ex, st, base, sep):
    lty = T.List(T.Str, region=SPLIT_REGION)
    code = T.mk_str(sep).t
    fn = z3.Function("uf_split", z3.IntSort(), z3.IntSort(), T.Obj)
    r = fn(base.t, code)
    res = V(lty, [r])
    st.pc.append(ex.h.list_len(st, r, lty) >= 1)
    return res


def axioms(ex):
    out = []
    empty = T.mk_str("").t
    terms = list(getattr(ex, "str_terms", []))
    if not terms:
        return out
    out.append(BANGS(empty) == 0)
    for s in terms:
        out.append(BANGS(s) >= 0)
        out.append(z3.Implies(BANGS(s) > 0, z3.And(BANGS(TAIL(s)) == BANGS(s) - 1, NOBANG(TAIL(s)) == NOBANG(s))))
        out.append(z3.Implies(BANGS(s) == 0, NOBANG(s) == s))
        out.append(BANGS(NOBANG(s)) == 0)
    return out


def validate():
    """S1-S5 and the split fact against CPython on all strings over {'!', 'a', '.'} up to length 6."""
    import itertools
    n = 0
    bangs = lambda s: len(s) - len(s.lstrip("!"))      # noqa: E731
    nobang = lambda s: s.lstrip("!")                   # noqa: E731
    for ln in range(0, 7):
        for tup in itertools.product("!a.", repeat=ln):
            s = "".join(tup)
            assert bangs(s) >= 0 and (s.startswith("!") == (bangs(s) > 0))
            if bangs(s) > 0:
                assert bangs(s[1:]) == bangs(s) - 1 and nobang(s[1:]) == nobang(s)
            else:
                assert nobang(s) == s
            assert bangs(nobang(s)) == 0
            assert len(s.split(".")) >= 1
            n += 1
    assert bangs("") == 0
    return n
