"""Loops: invariant-based cutting, exact summarisation of search loops, havoc abstraction."""
from __future__ import annotations
import ast
import z3
from . import types as T
from .types import V, Obj
from .engine import Unsupported, Outcome, REG, State


# ---- write sets -----------------------------------------------------------------
def assigned_names(stmts):
    out = set()

    def tgt(t):
        if isinstance(t, ast.Name):
            out.add(t.id)
        elif isinstance(t, (ast.Tuple, ast.List)):
            for e in t.elts:
                tgt(e)

    for s in stmts:
        for n in ast.walk(s):
            if isinstance(n, ast.Assign):
                for t in n.targets:
                    tgt(t)
            elif isinstance(n, (ast.AugAssign, ast.AnnAssign)):
                tgt(n.target)
            elif isinstance(n, ast.For):
                tgt(n.target)
            elif isinstance(n, ast.NamedExpr):
                tgt(n.target)
            elif isinstance(n, ast.ExceptHandler) and n.name:
                out.add(n.name)
    return out


def has_heap_effects(ex, stmts):
    """Conservative syntactic test: attribute/subscript stores or calls that are not known pure."""
    for s in stmts:
        for n in ast.walk(s):
            if isinstance(n, (ast.Assign, ast.AugAssign, ast.AnnAssign)):
                tgts = n.targets if isinstance(n, ast.Assign) else [n.target]
                for t in tgts:
                    for sub in ast.walk(t):
                        if isinstance(sub, (ast.Attribute, ast.Subscript)) and isinstance(sub.ctx, ast.Store):
                            return True
            if isinstance(n, ast.Call):
                txt = ast.unparse(n.func)
                d = ex.c.calls.get(txt)
                if d is None and isinstance(n.func, ast.Attribute):
                    d = ex.c.calls.get("*." + n.func.attr)
                if d is not None:
                    if d[0] in ("pure", "spec", "const", "ignore", "attrget"):
                        continue
                    if d[0] == "contract":
                        cc = REG.contracts.get(d[1])
                        if cc is not None and not cc.modifies:
                            continue
                    return True
                if isinstance(n.func, ast.Attribute) and n.func.attr in ("append", "extend", "add", "remove", "pop",
                                                                       "clear", "update", "insert", "sort"):
                    return True
    return False


class WriteSet:
    def __init__(self):
        self.keys = set()       # whole heap arrays to havoc
        self.objs = []          # (kind, receiver V, extra) : havoc restricted to one object
        self.containers = False
        self.widen = []         # ($obj entries of callee contracts) -> resolved to whole regions


def _loop_invariant_expr(node, assigned, written_fields):
    """Receiver expression whose value cannot change inside the loop: a name not assigned in the loop, or
    a field chain over such a name through fields not stored to in the loop."""
    if isinstance(node, ast.Name):
        return node.id not in assigned
    if isinstance(node, ast.Attribute):
        return node.attr not in written_fields and _loop_invariant_expr(node.value, assigned, written_fields)
    return False


def heap_write_keys(ex, stmts, st):
    """Heap locations possibly written by stmts (for havoc). Over-approximate."""
    ws = WriteSet()
    from .calls import expand_keys
    assigned = assigned_names(stmts)
    written_fields = set()
    for s in stmts:
        for n in ast.walk(s):
            if isinstance(n, ast.Attribute) and isinstance(n.ctx, ast.Store):
                written_fields.add(n.attr)

    def fresh_local(name):
        """The local is (re)bound in the loop body only to newly allocated containers."""
        found = False
        for s_ in stmts:
            for n_ in ast.walk(s_):
                tg, val = None, None
                if isinstance(n_, ast.Assign) and len(n_.targets) == 1:
                    tg, val = n_.targets[0], n_.value
                elif isinstance(n_, ast.AnnAssign):
                    tg, val = n_.target, n_.value
                if isinstance(tg, ast.Name) and tg.id == name:
                    if isinstance(val, (ast.Dict, ast.List, ast.ListComp)) and not getattr(val, "keys", None):
                        found = True
                    else:
                        return False
                if isinstance(n_, (ast.For,)) and name in _target_names(n_.target):
                    return False
        return found

    def container_write(recv_node, n):
        if isinstance(recv_node, ast.Name) and recv_node.id in assigned and fresh_local(recv_node.id):
            return          # only objects allocated inside the iteration are written: nothing older changes
        if _loop_invariant_expr(recv_node, assigned, written_fields):
            try:
                rv = ex.ev(recv_node, st.fork())
                rv = T.opt_inner(rv)
                if isinstance(rv.ty, (T.List, T.Dict)):
                    ws.objs.append(("container", rv, None))
                    return
                if isinstance(rv.ty, T.Ref) and REG.classes.get(rv.ty.cls, {}).get("backing"):
                    fld = REG.classes[rv.ty.cls]["backing"]
                    fk = REG.field_key(fld, rv.ty.cls)
                    inner = ex.h.get_field(st, rv.t, fk[0], fk[1])
                    ws.objs.append(("container", inner, None))
                    return
            except Unsupported:
                pass
        ws.containers = True

    for s in stmts:
        for n in ast.walk(s):
            if isinstance(n, (ast.Assign, ast.AugAssign, ast.AnnAssign)):
                tgts = n.targets if isinstance(n, ast.Assign) else [n.target]
                for t in tgts:
                    if isinstance(t, ast.Attribute):
                        cands = [k for k in REG.fields if k == t.attr or k.endswith("." + t.attr)]
                        if not cands:
                            raise Unsupported(f"store to undeclared field {t.attr} in loop", n)
                        done = False
                        if _loop_invariant_expr(t.value, assigned, written_fields):
                            try:
                                rv = T.opt_inner(ex.ev(t.value, st.fork()))
                                if isinstance(rv.ty, T.Ref):
                                    fk = REG.field_key(t.attr, rv.ty.cls)
                                    if fk:
                                        ws.objs.append(("field", rv, fk))
                                        done = True
                            except Unsupported:
                                pass
                        if not done:
                            ws.keys.update(expand_keys(cands))
                    elif isinstance(t, ast.Subscript):
                        sl = t.slice
                        if (isinstance(sl, ast.Tuple) and len(sl.elts) == 2 and isinstance(sl.elts[0], ast.Constant)
                                and isinstance(sl.elts[0].value, str) and sl.elts[0].value in REG.attrs):
                            ws.keys.update(expand_keys(["@" + sl.elts[0].value]))     # node[("attr", sc)] = v
                        else:
                            container_write(t.value, n)
            if isinstance(n, ast.Call):
                txt = ast.unparse(n.func)
                d = ex.c.calls.get(txt)
                if d is None and isinstance(n.func, ast.Attribute):
                    d = ex.c.calls.get("*." + n.func.attr)
                if d is not None and d[0] == "check":
                    d = d[2] if len(d) > 2 and d[2] else None
                if d is not None:
                    if d[0] == "contract":
                        cc = REG.contracts.get(d[1])
                        if cc is None:
                            raise Unsupported(f"callee contract {d[1]} not loaded", n)
                        for ent in cc.modifies:
                            if ent.startswith("$obj:"):
                                # object-granular inside a loop: widen to the whole region of that container type
                                ws.widen.append((cc, ent))
                            elif "@" in ent[1:] and not ent.startswith("$"):
                                ws.keys.update(expand_keys([ent[0] + ent[1:].split("@", 1)[0]]))
                            else:
                                ws.keys.update(expand_keys([ent]))
                    elif d[0] == "havoc":
                        ws.keys.update(expand_keys(d[2] if len(d) > 2 else []))
                elif isinstance(n.func, ast.Attribute) and n.func.attr in ("append", "extend", "pop", "remove", "clear"):
                    container_write(n.func.value, n)
    return ws


def havoc_heap(ex, st, ws):
    from .calls import _havoc_key
    for cc, ent in ws.widen:
        # region of the container type named by the entry: evaluate its static type from the callee's params
        reg = _entry_region(ex, cc, ent)
        for r, ty in T.REGIONS.items():
            if r == reg:
                for k in ty.all_keys():
                    _havoc_key(ex, st, k)
    if ws.containers:
        for hk in list(st.heap.keys()):
            if hk.startswith("$"):
                st.heap[hk] = z3.Const(T.fresh_name("H!" + hk), st.heap[hk].sort())
        ex.container_epoch = getattr(ex, "container_epoch", 0) + 1
        raise Unsupported("loop writes to a container that is not loop-invariant (whole-heap havoc not supported)")
    for k in ws.keys:
        _havoc_key(ex, st, k)
    for kind, rv, extra in ws.objs:
        if kind == "field":
            key, fty = extra
            ex.h.set_field(st, rv.t, key, fty, T.fresh(fty, "hv." + key))
        else:
            ty = rv.ty
            r = rv.t
            if isinstance(ty, T.List):
                ex.h.list_set_len(st, r, z3.Int(T.fresh_name("hv.len")), ty)
                st.pc.append(ex.h.list_len(st, r, ty) >= 0)
                n1 = ex.advance_time(st)
                from .engine import born_before
                for k, srt in enumerate(ty.t.sorts()):
                    key = ty.k_elem(k)
                    a = ex.h.arr(st, key, [Obj, z3.IntSort()], srt)
                    row = z3.Const(T.fresh_name("hv.elems"), z3.ArraySort(z3.IntSort(), srt))
                    bb = born_before(row, n1)
                    if bb is not None:
                        st.born.append(bb)
                    st.heap[key] = z3.Store(a, r, row)
                for k in ty.ghost_sum:
                    ex.h.list_set_sum(st, ty, r, k, z3.Real(T.fresh_name("hv.sum")))
            elif isinstance(ty, T.Dict):
                ks = ex.h._ks(ty)
                key = ty.k_dom()
                a = ex.h.arr(st, key, [Obj, ks], z3.BoolSort())
                st.heap[key] = z3.Store(a, r, z3.Const(T.fresh_name("hv.dom"), z3.ArraySort(ks, z3.BoolSort())))
                for j, srt in enumerate(ty.v.sorts()):
                    key = ty.k_val(j)
                    a = ex.h.arr(st, key, [Obj, ks], srt)
                    st.heap[key] = z3.Store(a, r, z3.Const(T.fresh_name("hv.vals"), z3.ArraySort(ks, srt)))


def _entry_region(ex, cc, ent):
    """Static region of `$obj:expr` of contract cc (expr typed in cc's parameter environment)."""
    st0 = State()
    env = {n: T.fresh(t, n) for n, t in cc.params.items() if not isinstance(t, T.Fn)}
    v = T.opt_inner(ex.spec_eval(st0, ent[5:], env))
    return v.ty.region


# ---- iteration domain --------------------------------------------------------------
class IterDom:
    """Sequence being iterated: length term and element-at-index function."""

    def __init__(self, n, at, kind, seq=None):
        self.n = n
        self.at = at
        self.kind = kind
        self.seq = seq        # the list being iterated (available to invariants as `_iter`)


def iter_domain(ex, s: ast.For, st):
    it = s.iter
    if isinstance(it, ast.Call) and isinstance(it.func, ast.Name) and it.func.id == "range":
        args = [ex.ev(a, st) for a in it.args]
        if len(args) == 1:
            lo, hi = z3.IntVal(0), args[0].t
        elif len(args) == 2:
            lo, hi = args[0].t, args[1].t
        else:
            raise Unsupported("range with step", s)
        n = z3.If(hi > lo, hi - lo, 0)
        cint = any(a.cint for a in args)
        return IterDom(z3.simplify(n), lambda i, st2: T.mk_int(z3.simplify(lo + i), cint=cint), "range")
    if isinstance(it, ast.Call) and isinstance(it.func, ast.Name) and it.func.id == "enumerate":
        lv = T.opt_inner(ex.ev(it.args[0], st))
        if not isinstance(lv.ty, T.List):
            raise Unsupported(f"enumerate over {lv.ty}", s)
        return IterDom(ex.h.list_len(st, lv.t, lv.ty),
                       lambda i, st2: T.mk_tuple([T.mk_int(i), ex.h.list_get(st2, lv.ty, lv.t, i)]), "list")
    lv = ex.ev(it, st)
    if isinstance(lv.ty, T.Opt):
        ex.oblige(st, "safety", f"none-iter@{s.lineno}", z3.Not(lv.terms[0]), s, "iteration over None")
        lv = T.opt_inner(lv)
    if isinstance(lv.ty, T.List):
        return IterDom(ex.h.list_len(st, lv.t, lv.ty), lambda i, st2: ex.h.list_get(st2, lv.ty, lv.t, i), "list", seq=lv)
    if isinstance(lv.ty, T.Ref):
        itf = REG.classes.get(lv.ty.cls, {}).get("iter")
        if itf:
            return itf(ex, lv, st)
    raise Unsupported(f"iteration over {lv.ty}", s)


# ---- for loops -----------------------------------------------------------------------
def exec_for(ex, s: ast.For, st):
    ordn = ex.loop_ord[id(s)]
    spec = ex.c.loops.get(ordn)
    dom = iter_domain(ex, s, st)
    if spec is not None and (spec.get("inv") is not None):
        return _for_with_invariant(ex, s, st, dom, spec, ordn)
    if _is_search_shape(s):
        mark = len(ex.obls)
        try:
            return _search_loop(ex, s, st, dom, ordn)
        except NotSearch:
            del ex.obls[mark:]
    return _havoc_loop(ex, s, st, dom, ordn)


class NotSearch(Exception):
    pass


def _is_search_shape(s):
    """A loop all of whose state changes happen on paths that leave the loop (break/return/raise)."""
    # syntactic approximation: names assigned in the body are either re-assigned before use in each iteration
    # (temporaries) -- checked semantically in _search_loop by havocking them after the loop.
    for n in ast.walk(s):
        if isinstance(n, (ast.Break, ast.Return, ast.Raise)):
            return True
    return False


def _search_loop(ex, s, st, dom, ordn):
    """for x in xs: <pure prefix>; if c: <effects>; break/return.
    Exact summary: first index i0 at which the body leaves the loop; all earlier iterations fall through
    without effect. Locals assigned on fall-through paths are temporaries: havocked after the loop."""
    temps = assigned_names(s.body) | assigned_names([ast.Assign(targets=[s.target], value=ast.Constant(0))])
    # carried state check: a temp read before assignment inside the body would carry values across iterations
    carried = _reads_before_write(s.body, temps - _target_names(s.target))
    if carried:
        raise NotSearch()
    outs = []
    i0 = z3.Int(T.fresh_name(f"i0_L{ordn}"))
    jq = z3.Int(T.fresh_name(f"jq_L{ordn}"))

    # 1. exit condition as a formula of a symbolic index jq
    stq = st.fork()
    base_len = len(stq.pc)
    base_conds = len(stq.conds)
    stq.pc.append(z3.And(jq >= 0, jq < dom.n))
    nobl = len(ex.obls)
    ex.assign(s.target, dom.at(jq, stq), stq, s)
    stq.env["_pos"] = T.mk_int(jq)       # ghost: position in the iterated sequence (for site contracts)
    if dom.seq is not None:
        stq.env["_iter"] = dom.seq
    heap0 = dict(stq.heap)
    env0 = dict(stq.env)
    mark_jq = len(ex.obls)
    body_outs = ex.run_block(s.body, stq)
    # site contracts speak about the iteration that actually leaves the loop: they are generated in the i0 pass
    ex.obls[mark_jq:] = [o for o in ex.obls[mark_jq:] if o.kind != "site"]
    fall_assigned = set(_target_names(s.target))
    # obligations generated while exploring iteration jq hold for arbitrary jq -> keep (jq free)
    exit_conds = []
    for o in body_outs:
        if o.kind in ("normal", "continue"):
            # a fall-through iteration must leave the heap untouched, otherwise this is not a search loop
            if set(o.st.heap) != set(heap0) or any(not o.st.heap[k].eq(heap0[k]) for k in heap0):
                raise NotSearch()
            for n_, v_ in o.st.env.items():
                if env0.get(n_) is not v_:
                    fall_assigned.add(n_)
    for o in body_outs:
        if o.kind in ("break", "return", "raise"):
            # only the branch decisions taken inside the iteration (assumptions added on the way are not conditions)
            cs_ = o.st.conds[base_conds:]
            exit_conds.append(z3.And(*cs_) if cs_ else z3.BoolVal(True))
    E = z3.Or(*exit_conds) if exit_conds else z3.BoolVal(False)

    def no_exit_before(bound):
        return z3.ForAll([jq], z3.Implies(z3.And(jq >= 0, jq < bound), z3.Not(E)))

    # 2. found case: execute the body at i0 for real
    st1 = st.fork()
    st1.pc.append(z3.And(i0 >= 0, i0 < dom.n))
    st1.pc.append(no_exit_before(i0))
    st1.conds.append(z3.And(i0 >= 0, i0 < dom.n, no_exit_before(i0)))
    if ex.feasible(st1.pc):
        st1.trace.append(f"L{ordn}@")
        mark = len(ex.obls)
        ex.assign(s.target, dom.at(i0, st1), st1, s)
        st1.env["_pos"] = T.mk_int(i0)
        if dom.seq is not None:
            st1.env["_iter"] = dom.seq
        for o in ex.run_block(s.body, st1):
            if o.kind == "break":
                outs.append(Outcome("normal", o.st))
            elif o.kind in ("return", "raise"):
                outs.append(o)
            # normal/continue at i0 contradicts "i0 is the exit index": drop
        # obligations of this pass duplicate those of the jq pass, except the site contracts
        ex.obls[mark:] = [o for o in ex.obls[mark:] if o.kind == "site"]
    # 3. not found: loop runs to completion without effect
    st2 = st.fork()
    st2.pc.append(no_exit_before(dom.n))
    st2.conds.append(no_exit_before(dom.n))
    if ex.feasible(st2.pc):
        st2.trace.append(f"L{ordn}-")
        for n in (temps & fall_assigned):
            if n in st2.env:
                st2.env[n] = T.fresh(st2.env[n].ty, n)
            else:
                st2.env.pop(n, None)
        if s.orelse:
            outs.extend(ex.run_block(s.orelse, st2))
        else:
            outs.append(Outcome("normal", st2))
    return outs


def _target_names(t):
    out = set()
    for n in ast.walk(t):
        if isinstance(n, ast.Name):
            out.add(n.id)
    return out


def _reads_before_write(stmts, names):
    """Names possibly read in the body before being written in the same iteration (syntactic, conservative)."""
    written = set()
    carried = set()

    def visit_expr(e):
        for n in ast.walk(e):
            if isinstance(n, ast.Name) and isinstance(n.ctx, ast.Load) and n.id in names and n.id not in written:
                carried.add(n.id)

    def visit(stmts):
        nonlocal written
        for s in stmts:
            if isinstance(s, ast.Assign):
                visit_expr(s.value)
                for t in s.targets:
                    for n in ast.walk(t):
                        if isinstance(n, ast.Name) and isinstance(n.ctx, ast.Store):
                            written.add(n.id)
                        elif isinstance(n, ast.Name):
                            visit_expr(n)
            elif isinstance(s, ast.AnnAssign):
                if s.value is not None:
                    visit_expr(s.value)
                    if isinstance(s.target, ast.Name):
                        written.add(s.target.id)
            elif isinstance(s, ast.AugAssign):
                visit_expr(s.target)
                visit_expr(s.value)
            elif isinstance(s, ast.If):
                visit_expr(s.test)
                w0 = set(written)
                visit(s.body)
                w1 = set(written)
                written = set(w0)
                visit(s.orelse)
                written = w1 & written
            elif isinstance(s, (ast.For, ast.While)):
                for n in ast.walk(s):
                    if isinstance(n, ast.expr):
                        visit_expr(n)
                        break
                visit(s.body)
            else:
                for n in ast.iter_child_nodes(s):
                    if isinstance(n, ast.expr):
                        visit_expr(n)
    visit(stmts)
    return carried


def _declared(ex, spec, name, cur):
    if spec and name in spec.get("locals", {}):
        return spec["locals"][name]
    if name in ex.c.locals:
        return ex.c.locals[name]
    if cur is not None:
        return cur.ty
    return None


def _havoc_locals(ex, st, names, spec):
    for n in names:
        cur = st.env.get(n)
        ty = _declared(ex, spec, n, cur)
        if ty is None:
            st.env.pop(n, None)
            continue
        if ty is T.NoneT:
            raise Unsupported(f"loop-modified local {n} needs a declared type (is None at loop entry)")
        v = T.fresh(ty, n)
        if cur is not None and cur.cint or ex.ctypes.get(n) == "int":
            v.cint = True
        st.env[n] = v
        # a reference held in a local after unknown iterations denotes an object that already exists
        from .engine import BIRTH
        for t_ in v.terms:
            if t_.sort() == Obj:
                st.pc.append(BIRTH(t_) < st.now)


def _havoc_loop(ex, s, st, dom, ordn):
    """No invariant: over-approximate by havoc of the write set (invariant `True`)."""
    names = assigned_names(s.body) | _target_names(s.target)
    keys = heap_write_keys(ex, s.body, st)
    outs = []
    # arbitrary iteration
    st1 = st.fork()
    _havoc_locals(ex, st1, names - _target_names(s.target), None)
    havoc_heap(ex, st1, keys)
    i = z3.Int(T.fresh_name(f"i_L{ordn}"))
    st1.pc.append(z3.And(i >= 0, i < dom.n))
    if ex.feasible(st1.pc):
        st1.trace.append(f"L{ordn}*")
        ex.assign(s.target, dom.at(i, st1), st1, s)
        for o in ex.run_block(s.body, st1):
            if o.kind == "break":
                outs.append(Outcome("normal", o.st))
            elif o.kind in ("return", "raise"):
                outs.append(o)
    # after the loop
    st2 = st.fork()
    _havoc_locals(ex, st2, names, None)
    havoc_heap(ex, st2, keys)
    st2.trace.append(f"L{ordn}.")
    if s.orelse:
        outs.extend(ex.run_block(s.orelse, st2))
    else:
        outs.append(Outcome("normal", st2))
    return outs


def _for_with_invariant(ex, s, st, dom, spec, ordn):
    names = assigned_names(s.body) | _target_names(s.target)
    keys = heap_write_keys(ex, s.body, st)
    outs = []
    ivar = spec.get("index", "_i")
    invs = [(f"inv{k}", c) if isinstance(c, str) else c for k, c in enumerate(spec["inv"])]

    def inv_terms(state, idx):
        env = dict(state.env)
        for n_, ty_ in (spec.get("locals") or {}).items():
            if n_ in env:
                try:
                    env[n_] = T.coerce(env[n_], ty_)
                except T.TypeErr:
                    pass
        env[ivar] = T.mk_int(idx)
        env["_n"] = T.mk_int(dom.n)
        if dom.seq is not None:
            env["_iter"] = dom.seq
        return [(lab, ex.spec_bool(state, src, env, old_state=ex.entry_state)) for lab, src in invs]

    # init
    for lab, g in inv_terms(st, z3.IntVal(0)):
        ex.oblige(st, "inv-init", f"L{ordn}.{lab}", g, s)
    # arbitrary iteration
    st1 = st.fork()
    _havoc_locals(ex, st1, names - _target_names(s.target), spec)
    havoc_heap(ex, st1, keys)
    i = z3.Int(T.fresh_name(f"i_L{ordn}"))
    st1.pc.append(z3.And(i >= 0, i < dom.n))
    for lab, g in inv_terms(st1, i):
        st1.pc.append(g)
    if ex.feasible(st1.pc):
        st1.trace.append(f"L{ordn}*")
        ex.assign(s.target, dom.at(i, st1), st1, s)
        for o in ex.run_block(s.body, st1):
            if o.kind in ("normal", "continue"):
                for lab, g in inv_terms(o.st, i + 1):
                    ex.oblige(o.st, "inv-pres", f"L{ordn}.{lab}", g, s)
            elif o.kind == "break":
                outs.append(Outcome("normal", o.st))
            else:
                outs.append(o)
    # exit
    st2 = st.fork()
    _havoc_locals(ex, st2, names, spec)
    havoc_heap(ex, st2, keys)
    for lab, g in inv_terms(st2, dom.n):
        st2.pc.append(g)
    st2.trace.append(f"L{ordn}.")
    if s.orelse:
        outs.extend(ex.run_block(s.orelse, st2))
    else:
        outs.append(Outcome("normal", st2))
    return outs


# ---- while loops ---------------------------------------------------------------------------
def exec_while(ex, s: ast.While, st):
    ordn = ex.loop_ord[id(s)]
    spec = ex.c.loops.get(ordn) or {}
    names = assigned_names(s.body)
    keys = heap_write_keys(ex, s.body, st)
    invs = [(f"inv{k}", c) if isinstance(c, str) else c for k, c in enumerate(spec.get("inv") or [])]
    outs = []

    def inv_terms(state, k):
        env = dict(state.env)
        for n_, ty_ in (spec.get("locals") or {}).items():
            if n_ in env:
                try:
                    env[n_] = T.coerce(env[n_], ty_)      # e.g. a None literal seen as Opt[Int]
                except T.TypeErr:
                    pass
        env["_k"] = T.mk_int(k)          # ghost: number of completed iterations
        return [(lab, ex.spec_bool(state, src, env, old_state=ex.entry_state)) for lab, src in invs]

    for lab, g in inv_terms(st, z3.IntVal(0)):
        ex.oblige(st, "inv-init", f"L{ordn}.{lab}", g, s)

    # arbitrary iteration
    st1 = st.fork()
    _havoc_locals(ex, st1, names, spec)
    havoc_heap(ex, st1, keys)
    kk = z3.Int(T.fresh_name(f"k_L{ordn}"))
    st1.pc.append(kk >= 0)
    for lab, g in inv_terms(st1, kk):
        st1.pc.append(g)
    c1 = ex.truthy(st1, ex.ev(s.test, st1))
    st1b = st1.fork()
    st1b.pc.append(c1)
    st1b.conds.append(c1)
    if ex.feasible(st1b.pc):
        st1b.trace.append(f"W{ordn}*")
        dec0 = None
        if spec.get("decreases"):
            env0 = dict(st1b.env)
            env0["_k"] = T.mk_int(kk)
            dec0 = ex.spec_eval(st1b, spec["decreases"], env0, old_state=ex.entry_state)
            ex.oblige(st1b, "decreases", f"L{ordn}.bounded", ex.num(dec0) >= 0, s, "variant bounded below")
        for o in ex.run_block(s.body, st1b):
            if o.kind in ("normal", "continue"):
                for lab, g in inv_terms(o.st, kk + 1):
                    ex.oblige(o.st, "inv-pres", f"L{ordn}.{lab}", g, s)
                if dec0 is not None:
                    env1 = dict(o.st.env)
                    env1["_k"] = T.mk_int(kk + 1)
                    dec1 = ex.spec_eval(o.st, spec["decreases"], env1, old_state=ex.entry_state)
                    ex.oblige(o.st, "decreases", f"L{ordn}.strict", ex.num(dec1) < ex.num(dec0), s,
                              "variant strictly decreases")
            elif o.kind == "break":
                outs.append(Outcome("normal", o.st))
            else:
                outs.append(o)
    # exit
    st2 = st1.fork()
    st2.pc.append(z3.Not(c1))
    st2.conds.append(z3.Not(c1))
    if ex.feasible(st2.pc):
        st2.trace.append(f"W{ordn}.")
        if s.orelse:
            outs.extend(ex.run_block(s.orelse, st2))
        else:
            outs.append(Outcome("normal", st2))
    return outs
