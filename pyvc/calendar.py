"""ISO calendar model.

isocalendar() of a day number d (days since 1970-01-01) is modelled with uninterpreted functions over the
absolute Monday-based week number w = (d + 3) div 7:
    iso_year(w), FW(Y) = absolute week number of ISO week 1 of ISO year Y, cal_year(d)
and the axioms below (instantiated at the terms that occur). Every axiom is validated against CPython for all
days 1970-01-01 .. 2200-12-31 by `validate()` (run by the checks on every run); that validates the model, it
proves nothing about /repo.
    A1  iso_week(d) == w - FW(iso_year(w)) + 1
    A2  FW(iso_year(w)) <= w < FW(iso_year(w) + 1)
    A3  52*(Y2 - Y1) <= FW(Y2) - FW(Y1) <= 53*(Y2 - Y1)            for Y1 <= Y2
    A5  |cal_year(d) - iso_year(w)| <= 1
    A6  Dec 28 of calendar year Y lies in ISO year Y, in its last week:  week(dec28(Y)) == FW(Y + 1) - 1
"""
from __future__ import annotations
import z3
from . import types as T
from .types import V
from .engine import Unsupported, to_real, real_floor

ISO_YEAR = z3.Function("iso_year", z3.IntSort(), z3.IntSort())     # of absolute week
FW = z3.Function("iso_first_week", z3.IntSort(), z3.IntSort())      # of ISO year
CAL_YEAR = z3.Function("cal_year", z3.IntSort(), z3.IntSort())      # of day number
DEC28 = z3.Function("dec28_day", z3.IntSort(), z3.IntSort())        # calendar year -> day number of Dec 28


def week_of(days):
    return (days + 3) / 7


def _note(ex, kind, term):
    ex.cal_terms = getattr(ex, "cal_terms", {"weeks": [], "years": [], "days": []})
    lst = ex.cal_terms[kind]
    if not any(t.eq(term) for t in lst):
        lst.append(term)


def iso_year_week(ex, days, st=None):
    w = week_of(days)
    y = ISO_YEAR(w)
    _note(ex, "weeks", w)
    _note(ex, "years", y)
    _note(ex, "days", days)
    return y, w - FW(y) + 1


def dt_replace(ex, base, node, st):
    kws = {k.arg: k.value for k in node.keywords}
    if set(kws) == {"month", "day"}:
        m = ex.ev(kws["month"], st)
        d = ex.ev(kws["day"], st)
        ms, dsv = z3.simplify(m.t), z3.simplify(d.t)
        if z3.is_int_value(ms) and z3.is_int_value(dsv):
            secs = real_floor(base.t)
            days = secs / 86400
            cy = CAL_YEAR(days)
            _note(ex, "days", days)
            _note(ex, "years", cy)
            if ms.as_long() == 12 and dsv.as_long() == 28:
                nd = DEC28(cy)
            else:
                # any other fixed month/day: a day of that calendar year about which nothing else is known
                fn = z3.Function(f"day_of_{ms.as_long()}_{dsv.as_long()}", z3.IntSort(), z3.IntSort())
                nd = fn(cy)
            _note(ex, "days", nd)
            return V(T.DT, [to_real(nd * 86400) + (base.t - to_real(days * 86400))])
    if set(kws) == {"tzinfo"}:
        return base
    raise Unsupported("datetime.replace with these fields", node)


def axioms(ex):
    """Ground instances of A1-A6 at the calendar terms created during this execution."""
    ct = getattr(ex, "cal_terms", None)
    if not ct:
        return []
    out = []
    for w in ct["weeks"]:
        y = ISO_YEAR(w)
        out.append(z3.And(FW(y) <= w, w < FW(y + 1)))
    years = list(ct["years"])
    ys = years + [y + 1 for y in years]
    for i, a in enumerate(ys):
        for b in ys[i + 1:]:
            out.append(z3.Implies(a <= b, z3.And(52 * (b - a) <= FW(b) - FW(a), FW(b) - FW(a) <= 53 * (b - a))))
            out.append(z3.Implies(b <= a, z3.And(52 * (a - b) <= FW(a) - FW(b), FW(a) - FW(b) <= 53 * (a - b))))
    for d in ct["days"]:
        w = week_of(d)
        out.append(z3.And(CAL_YEAR(d) - ISO_YEAR(w) <= 1, ISO_YEAR(w) - CAL_YEAR(d) <= 1))
    for y in years:
        out.append(z3.And(week_of(DEC28(y)) == FW(y + 1) - 1, ISO_YEAR(week_of(DEC28(y))) == y, CAL_YEAR(DEC28(y)) == y))
    # monotonicity of iso_year in the week number, at the pairs that occur
    ws = ct["weeks"]
    for i, a in enumerate(ws):
        for b in ws[i + 1:]:
            out.append(z3.Implies(a <= b, ISO_YEAR(a) <= ISO_YEAR(b)))
            out.append(z3.Implies(b <= a, ISO_YEAR(b) <= ISO_YEAR(a)))
            out.append(z3.Implies(a == b, ISO_YEAR(a) == ISO_YEAR(b)))
    ds = ct["days"]
    for i, a in enumerate(ds):
        for b in ds[i + 1:]:
            out.append(z3.Implies(a <= b, CAL_YEAR(a) <= CAL_YEAR(b)))
            out.append(z3.Implies(b <= a, CAL_YEAR(b) <= CAL_YEAR(a)))
    return out


def validate(lo_year=1970, hi_year=2200):
    """Check every axiom against CPython's datetime for each day of [lo_year, hi_year]. Returns #days checked."""
    import datetime as dt
    epoch = dt.date(1970, 1, 1)
    fw = {}
    d = dt.date(lo_year, 1, 1)
    end = dt.date(hi_year, 12, 31)
    n = 0
    prev_w = None
    while d <= end:
        days = (d - epoch).days
        iy, iw, iwd = d.isocalendar()
        w = (days + 3) // 7
        assert iwd == (days + 3) % 7 + 1 and d.weekday() == (days + 3) % 7
        if iw == 1 and iy not in fw:
            fw[iy] = w
        if iy in fw:
            assert iw == w - fw[iy] + 1, (d, iy, iw, w, fw[iy])
            assert fw[iy] <= w
        assert abs(d.year - iy) <= 1
        if d.month == 12 and d.day == 28:
            assert iy == d.year
            nxt = dt.date(d.year + 1, 1, 4)            # Jan 4 is always in ISO week 1
            wn = ((nxt - epoch).days + 3) // 7
            assert w == wn - 1, (d, w, wn)
        n += 1
        d += dt.timedelta(days=1)
    ys = sorted(fw)
    for a, b in zip(ys, ys[1:]):
        assert b == a + 1 and 52 <= fw[b] - fw[a] <= 53
    return n
