"""Calendar model (ISO weeks, replace). Filled in with the C05/C14 contracts."""
from .engine import Unsupported


def iso_year_week(ex, days):
    raise Unsupported("isocalendar model not loaded")


def dt_replace(ex, base, node, st):
    raise Unsupported("datetime.replace model not loaded")
