"""Extraction of the functions under contract from the real source, on every run.

Nothing is copied by hand: the file is read from the repository root (VERIF_REPO, default /repo),
parsed with `ast`, and the FunctionDef is looked up by qualified name. For .pyx files a mechanical
pre-pass (`cyx`) rewrites the Cython-only syntax into Python syntax and records the C types.

What extraction drops: doc-strings, type annotations, `# type:` comments, decorators
(@staticmethod/@classmethod/@property/@cython.cfunc/@cython.inline), Cython compiler-directive
comments and cimport lines. Nothing else.
"""
from __future__ import annotations
import ast
import hashlib
import os
import re

REPO = os.environ.get("VERIF_REPO", "/repo")


def repo_root():
    return os.environ.get("VERIF_REPO", "/repo")


class FuncSrc:
    def __init__(self, path, qual, fdef, text, ctypes=None, cparams=None, cret=None):
        self.path = path
        self.qual = qual
        self.fdef = fdef
        self.text = text
        self.ctypes = ctypes or {}
        self.cparams = cparams or {}
        self.cret = cret
        seg = ast.get_source_segment(text, fdef) or ast.unparse(fdef)
        self.sha = hashlib.sha256(seg.encode()).hexdigest()[:16]
        self.lines = (fdef.lineno, fdef.end_lineno)
        self.aliases = {}


_cache = {}


def load(target: str, client_src=None) -> FuncSrc:
    """target = 'relative/path.py::Class.func' or '...::func' or '...::Class.func.inner'"""
    root = repo_root()
    key = (root, target)
    if key in _cache:
        return _cache[key]
    path, qual = target.split("::")
    if path == "lemma":
        tree = ast.parse(client_src)
        fdef = tree.body[0]
        fs = FuncSrc("lemma", qual, fdef, client_src)
        _cache[key] = fs
        return fs
    full = os.path.join(root, path)
    if not os.path.exists(full):
        raise LookupError(f"source file {path} not found")
    raw = open(full, encoding="utf-8").read()
    ctypes, cparams, crets = {}, {}, {}
    if path.endswith(".pyx"):
        text, info = cyx(raw)
    else:
        text, info = raw, {}
    tree = ast.parse(text)
    node = tree
    for part in qual.split("."):
        found = None
        for ch in ast.iter_child_nodes(node) if not isinstance(node, (ast.FunctionDef,)) else ast.walk(node):
            if isinstance(ch, (ast.FunctionDef, ast.ClassDef)) and ch.name == part and ch is not node:
                found = ch
                break
        if found is None:
            raise LookupError(f"{qual} not found in {path}")
        node = found
    if not isinstance(node, ast.FunctionDef):
        raise LookupError(f"{qual} in {path} is not a function")
    fi = info.get(node.name, {})
    fs = FuncSrc(path, qual, node, text, fi.get("locals"), fi.get("params"), fi.get("ret"))
    fs.aliases = {}
    for st_ in tree.body:
        if isinstance(st_, ast.Import):
            for al in st_.names:
                fs.aliases[al.asname or al.name] = al.name
    # module-level numeric / string / bool constants (NAME = <constant expression>): part of the function's meaning
    fs.module_consts = {}
    for st_ in tree.body:
        tgt, val = None, None
        if isinstance(st_, ast.Assign) and len(st_.targets) == 1 and isinstance(st_.targets[0], ast.Name):
            tgt, val = st_.targets[0].id, st_.value
        elif isinstance(st_, ast.AnnAssign) and isinstance(st_.target, ast.Name) and st_.value is not None:
            tgt, val = st_.target.id, st_.value
        if tgt is None:
            continue
        try:
            if all(isinstance(n, (ast.Expression, ast.Constant, ast.BinOp, ast.UnaryOp, ast.operator, ast.unaryop)) for n in ast.walk(val)):
                v = eval(compile(ast.Expression(val), "<const>", "eval"), {"__builtins__": {}}, {})   # noqa: S307 (constants only)
                if isinstance(v, (int, float, str, bool)):
                    fs.module_consts[tgt] = v
        except Exception:  # noqa
            pass
    _cache[key] = fs
    return fs


# ---------------------------------------------------------------------------
# Cython pre-pass

_CTYPES = r"(?:int|double|float|bint|list|dict|tuple|object|long|str)"


def _rewrite_casts(line: str) -> str:
    """<T>primary  ->  __cast_T__(primary). A cast binds tighter than binary operators."""
    out = ""
    i = 0
    while i < len(line):
        m = re.match(r"<(int|double|float|long)>", line[i:])
        if not m:
            out += line[i]
            i += 1
            continue
        cty = m.group(1)
        j = i + m.end()
        # parse a primary expression: name/number with trailers, or parenthesised
        k = j
        if k < len(line) and line[k] == "(":
            depth = 0
            while k < len(line):
                if line[k] == "(":
                    depth += 1
                elif line[k] == ")":
                    depth -= 1
                    if depth == 0:
                        k += 1
                        break
                k += 1
        elif k < len(line) and line[k] == "<":
            # nested cast
            inner = _rewrite_casts(line[k:])
            return out + f"__cast_{cty}__(" + inner + ")"
        else:
            while k < len(line) and (line[k].isalnum() or line[k] in "_."):
                k += 1
        # trailers
        while k < len(line) and line[k] in "([":
            close = ")" if line[k] == "(" else "]"
            depth = 0
            while k < len(line):
                if line[k] in "([":
                    depth += 1
                elif line[k] in ")]":
                    depth -= 1
                    if depth == 0:
                        k += 1
                        break
                k += 1
            while k < len(line) and (line[k].isalnum() or line[k] in "_."):
                k += 1
        inner = _rewrite_casts(line[j:k])
        out += f"__cast_{cty}__({inner})"
        i = k
    return out


def cyx(raw: str):
    """Mechanical .pyx -> Python text. Returns (text, {func: {params:{}, locals:{}, ret:type}})."""
    lines = raw.split("\n")
    out = []
    info = {}
    cur = None
    i = 0
    while i < len(lines):
        ln = lines[i]
        stripped = ln.strip()
        indent = ln[: len(ln) - len(ln.lstrip())]
        if re.match(r"(from\s+\S+\s+cimport|cimport)\b", stripped):
            out.append(indent + "pass" if indent else "")
            i += 1
            continue
        m = re.match(r"(cpdef|cdef)\s+(?:inline\s+)?(" + _CTYPES + r")\s+(\w+)\s*\(", stripped)
        if m and not indent:
            # function header, possibly spanning several lines up to '):'
            hdr = stripped
            j = i
            while not re.search(r"\)\s*:\s*$", hdr):
                j += 1
                hdr += " " + lines[j].strip()
            ret, name = m.group(2), m.group(3)
            args_txt = hdr[hdr.index("(") + 1: hdr.rindex(")")]
            params = {}
            names = []
            for a in [x.strip() for x in args_txt.split(",") if x.strip()]:
                mm = re.match(r"(" + _CTYPES + r")\s+(\w+)(\s*=.*)?$", a)
                if mm:
                    params[mm.group(2)] = mm.group(1)
                    names.append(mm.group(2) + (mm.group(3) or ""))
                else:
                    names.append(a)
            info[name] = {"params": params, "locals": dict(params), "ret": ret}
            cur = name
            out.append(f"def {name}({', '.join(names)}):")
            # keep line numbering: pad
            for _ in range(j - i):
                out.append("")
            i = j + 1
            continue
        m = re.match(r"def\s+(\w+)\s*\(", stripped)
        if m and not indent:
            cur = m.group(1)
            info.setdefault(cur, {"params": {}, "locals": {}, "ret": None})
            mr = re.search(r"->\s*cython\.(\w+)\s*:", stripped)
            if mr:
                info[cur]["ret"] = mr.group(1)
            out.append(ln)
            i += 1
            continue
        m = re.match(r"cdef\s+(" + _CTYPES + r")\s+(.*)$", stripped)
        if m and indent:
            cty, rest = m.group(1), m.group(2)
            if "=" in rest and not re.match(r"\w+\s*,", rest):
                name, val = rest.split("=", 1)
                name = name.strip()
                if cur:
                    info[cur]["locals"][name] = cty
                out.append(indent + f"{name} = {_rewrite_casts(val.strip())}")
            else:
                for name in [x.strip() for x in rest.split(",")]:
                    if cur:
                        info[cur]["locals"][name] = cty
                out.append(indent + "pass")
            i += 1
            continue
        out.append(_rewrite_casts(ln) if "<" in ln and re.search(r"<(int|double|float|long)>", ln) else ln)
        i += 1
    return "\n".join(out), info
