"""C01 / C03 / C05 / C06 kernels on the task side.

  scriptplan/core/task_scenario.py :: _calculatePreciseEndTimeAndRelease, bookResource, getAllLimits, limitsOk,
                                      incLimits
"""
from contracts.model import *  # noqa
import contracts.c01_ledger as L  # noqa

TS = "scriptplan/core/task_scenario.py"
RS = "scriptplan/core/resource_scenario.py"
LM = "scriptplan/core/limits.py"

# the final-slot accounting of a finishing task. Pre-state: the task has just booked `cur` on resource r:
# its entry is the last one of the slot, the slot is full.
_rel_pre = [
    ("slot", "self.currentSlotIdx is not None"),
    ("resource", "self._lastBookedResource is not None and some(self._lastBookedResource).data is not None and "
                 "0 <= self.scenarioIdx and self.scenarioIdx < len(some(some(self._lastBookedResource).data)) and "
                 "some(some(self._lastBookedResource).data)[self.scenarioIdx] is not None"),
    ("same-project", "RSof(some(self._lastBookedResource), self.scenarioIdx).project == self.project"),
    ("g", "PG(self.project) >= 1 and self.project.attributes['start'] is not None"),
    ("eff", "Eff(some(self._lastBookedResource), self.scenarioIdx) > 0"),
    ("ledger", "Ledger(RSof(some(self._lastBookedResource), self.scenarioIdx))"),
    ("lists", "ListsDistinct(MyRS(self))"),
    # just booked: the slot is full and this task's entry sits last
    ("booked", "some(self.currentSlotIdx) in MyRS(self).slotTaskUsage and used(MyRS(self), some(self.currentSlotIdx)) == PG(self.project) and "
               "len(MyList(self)) >= 1 and MyList(self)[len(MyList(self)) - 1][0] == self.property"),
    ("entries-fit", "EntriesFit(MyRS(self))"),
    ("need", "required_effort - effort_before_slot > 0"),
]
# the task has one entry in its final slot (no earlier portion of the same task in that slot)
ghost("UniqueEntry", ["ts"], "forall(k, 0, len(MyList(ts)) - 1, MyList(ts)[k][0] != ts.property)")
ghost("MyRS", ["ts"], "RSof(some(ts._lastBookedResource), ts.scenarioIdx)")
ghost("MyList", ["ts"], "MyRS(ts).slotTaskUsage[some(ts.currentSlotIdx)]")
ghost("MyEntry", ["ts"], "MyList(ts)[len(MyList(ts)) - 1][1]")

contract(
    TS + "::TaskScenario._calculatePreciseEndTimeAndRelease", props=["C01", "C03", "C06"],
    params={"self": Ref("TaskScenario"), "required_effort": Real, "effort_before_slot": Real, "forward": Bool},
    ret=Tuple(DT, Real),
    requires=_rel_pre,
    ensures=[
        # C01: releasing the unused tail keeps the slot consistent: per-task portions still fit the slot total
        ("ledger", "Ledger(MyRS(self))"),
        ("entries-fit", "EntriesFit(MyRS(self)) and ListsDistinct(MyRS(self))"),
        ("frame", "forall(s, implies(s != some(self.currentSlotIdx), used(MyRS(self), s) == old(used(MyRS(self), s)) "
                  "and usage(MyRS(self), s) == old(usage(MyRS(self), s))))"),
        # C03: after trimming, the task's portion of the final slot is exactly what the missing effort needs
        # (when the booking could cover it: need <= what was booked)
        # (to within one microsecond of booked time: a smaller remainder is not released)
        ("exact-effort", "implies(old(UniqueEntry(self)) and required_effort - effort_before_slot <= old(MyEntry(self)) / 3600 * Eff(some(self._lastBookedResource), self.scenarioIdx), "
                         "MyEntry(self) / 3600 * Eff(some(self._lastBookedResource), self.scenarioIdx) >= required_effort - effort_before_slot and "
                         "(MyEntry(self) - 1/1000000) / 3600 * Eff(some(self._lastBookedResource), self.scenarioIdx) <= required_effort - effort_before_slot)"),
        ("never-more", "implies(old(UniqueEntry(self)), MyEntry(self) <= old(MyEntry(self)))"),
        # C06 (forward): the reported end lies after everything that was in the slot before this task plus the
        # task's own portion (to within the one-second rounding)
        ("end-after-work", "implies(forward and old(UniqueEntry(self)), secs(result[0]) - secs(PT(self.project, some(self.currentSlotIdx))) >= "
                           "old(PG(self.project) - MyEntry(self)) + MyEntry(self) - 1/2 - 1/1000000)"),
        ("end-in-slot", "implies(forward, secs(result[0]) <= secs(PT(self.project, some(self.currentSlotIdx))) + PG(self.project) + 1/2)"),
        # C06 (backward): the reported start lies before the task's portion, which ends where later work begins
        ("start-before-work", "implies(not forward and old(UniqueEntry(self)), secs(PT(self.project, some(self.currentSlotIdx))) + PG(self.project) - secs(result[0]) >= "
                              "old(PG(self.project) - MyEntry(self)) + MyEntry(self) - 1/2 - 1/1000000)"),
    ],
    calls={"self.project.idxToDate": ("spec", ["self", "i"], "ite(self.attributes['start'] is None, None, PT(self, i))")},
    static={},
    locals={"resource": Opt(Ref("Resource")), "slot_start": Opt(DT)},
    modifies=["$obj:MyRS(self).slotSecondsUsed", "$obj:MyList(self)"],
)

# ---- task-side limits (C05: all tasks below a limited task together) ----------------------------------------------
# chain(t, j): t itself for j == -1, its (j+1)-th ancestor for j >= 0
ghost("chain", ["t", "j"], "ite(j == -1, t, some(anc(t, j)))")
ghost("chain_in", ["t", "j"], "j == -1 or (j >= 0 and anc(t, j) is not None)")
ghost("TLim", ["n", "sc"], "attr(n, 'limits', sc)")
ghost("TLimOn", ["n", "sc"], "TLim(n, sc) is not None and len(some(TLim(n, sc))._limits) > 0")
ghost("ChainLimWf", ["t", "sc"], "forall(j, implies(chain_in(t, j) and TLim(chain(t, j), sc) is not None, LimitsWf(some(TLim(chain(t, j), sc)))))",
      opaque=Bool, types=[Ref("Task"), Int])

contract(
    TS + "::TaskScenario.getAllLimits", props=["C05"],
    params={"self": Ref("TaskScenario")}, ret=List(Ref("Limits")),
    assumes=L.anc_axioms("self.property"),
    ensures=[
        # every limits object of the task and of every enclosing task is in the result, and nothing else
        ("complete", "forall(j, implies(chain_in(self.property, j) and TLimOn(chain(self.property, j), self.scenarioIdx), "
                     "exists(k, 0, len(result), result[k] == some(TLim(chain(self.property, j), self.scenarioIdx)))))"),
        ("sound", "forall(k, 0, len(result), exists(j, j >= -1 and chain_in(self.property, j) and TLimOn(chain(self.property, j), self.scenarioIdx) "
                  "and result[k] == some(TLim(chain(self.property, j), self.scenarioIdx))))"),
    ],
    loops={0: {"inv": [
        ("cursor", "task == ite(_k == 0, self.property, anc(self.property, _k - 1))"),
        ("complete", "forall(j, -1, _k - 1, implies(chain_in(self.property, j) and TLimOn(chain(self.property, j), self.scenarioIdx), "
                     "exists(k, 0, len(all_limits), all_limits[k] == some(TLim(chain(self.property, j), self.scenarioIdx)))))"),
        ("sound", "forall(k, 0, len(all_limits), exists(j, j >= -1 and j < _k - 1 and chain_in(self.property, j) and "
                  "TLimOn(chain(self.property, j), self.scenarioIdx) and all_limits[k] == some(TLim(chain(self.property, j), self.scenarioIdx))))"),
    ], "locals": {"task": Opt(Ref("Task")), "limits": Opt(Ref("Limits"))}}},
    locals={"all_limits": local(List(Ref("Limits")), "all_limits"), "task": Opt(Ref("Task"))},
)

ghost("ResId", ["r"], "ite(r is None, None, some(r).id)")
_gal_post_as_pre = [
    ("complete", "forall(j, implies(chain_in(self.property, j) and TLimOn(chain(self.property, j), self.scenarioIdx), "
                 "exists(k, 0, len(result), result[k] == some(TLim(chain(self.property, j), self.scenarioIdx)))))"),
]

contract(
    TS + "::TaskScenario.limitsOk", props=["C05"], reveal=["ChainLimWf"],
    params={"self": Ref("TaskScenario"), "sbIdx": Int, "resource": Opt(Ref("Resource"))}, ret=Bool,
    defaults={"resource": None},
    requires=[("wf", "ChainLimWf(self.property, self.scenarioIdx)")],
    assumes=L.anc_axioms("self.property"),
    ensures=[
        # C05: a slot is accepted only if the limits of the task and of every enclosing task admit it
        ("sound", "implies(result, forall(j, implies(chain_in(self.property, j) and TLimOn(chain(self.property, j), self.scenarioIdx), "
                  "LimitsOkSpec(some(TLim(chain(self.property, j), self.scenarioIdx)), sbIdx, True, ResId(resource)))))"),
    ],
    calls={"self.getAllLimits": ("contract", TS + "::TaskScenario.getAllLimits"),
           # functional form of Limits.ok, proved as Limits.ok/exact (a contract call inside the search loop
           # would lose the dependence of the answer on the loop index)
           "limits.ok": ("spec", ["self", "i", "upper", "resource"], "LimitsOkSpec(self, i, upper, resource)")},
)

contract(
    TS + "::TaskScenario.incLimits", variant="counting", props=["C05"], reveal=["ChainLimWf"],
    params={"self": Ref("TaskScenario"), "sbIdx": Int, "resource": Opt(Ref("Resource"))},
    defaults={"resource": None},
    requires=[("wf", "ChainLimWf(self.property, self.scenarioIdx)")],
    assumes=L.anc_axioms("self.property"),
    ensures=[("ledger-frame", "True")],
    calls={"self.getAllLimits": ("contract", TS + "::TaskScenario.getAllLimits"),
           "limits.inc": ("contract", LM + "::Limits.inc")},
    modifies=["Limit._dirty", "$region:Limit._scoreboard"],
    note="every limits object of the chain receives inc (call-site preconditions proved); the aggregated counting "
         "postcondition across distinct limits objects is not carried (needs separation of their counter lists)",
)

_br_rs = "RSof(resource, self.scenarioIdx)"
contract(
    TS + "::TaskScenario.bookResource", props=["C01", "C03", "C05", "C06"],
    params={"self": Ref("TaskScenario"), "resource": Ref("Resource")}, ret=Real,
    requires=[
        ("data", "resource.data is not None and 0 <= self.scenarioIdx and self.scenarioIdx < len(some(resource.data)) and "
                 "some(resource.data)[self.scenarioIdx] is not None"),
        ("prepared", f"{_br_rs}.scoreboard is not None"),
        ("same", f"{_br_rs}.project == self.project and {_br_rs}.property == resource and {_br_rs}.scenarioIdx == self.scenarioIdx"),
        ("slot", "self.currentSlotIdx is not None and 0 <= some(self.currentSlotIdx) and "
                 f"some(self.currentSlotIdx) < len(some({_br_rs}.scoreboard).sb) and "
                 "implies(self.project.scoreboard is not None, some(self.currentSlotIdx) < len(some(self.project.scoreboard).sb))"),
        ("g", "PG(self.project) >= 1 and self.project.attributes['start'] is not None"),
        ("offset", "0 <= self.slotStartOffset and self.slotStartOffset < PG(self.project)"),
        ("ledger", f"Ledger({_br_rs})"),
        ("entries", f"EntriesFit({_br_rs})"),
        ("lists", f"forall(s, forall(t, implies(s != t and s in {_br_rs}.slotTaskUsage and t in {_br_rs}.slotTaskUsage, "
                  f"{_br_rs}.slotTaskUsage[s] != {_br_rs}.slotTaskUsage[t])))"),
        ("res-limits-wf", "NodeLimWf(resource, self.scenarioIdx) and AncLimWf(resource, self.scenarioIdx)"),
        ("task-limits-wf", "ChainLimWf(self.property, self.scenarioIdx)"),
        ("eff", "attr(resource, 'efficiency', self.scenarioIdx) is None or some(attr(resource, 'efficiency', self.scenarioIdx)) >= 0"),
        ("task-data", "self.property.data is not None and self.scenarioIdx < len(some(self.property.data))"),
    ],
    assumes=L.anc_axioms("self.property") + L.anc_axioms("resource"),
    ensures=[
        ("ledger", f"Ledger({_br_rs})"),
        ("entries", f"EntriesFit({_br_rs})"),
        # C01: the start offset only ever *raises* the used seconds of the first slot, never above the slot
        ("usage-kept-when-refused", f"implies(result == 0, forall(s, usage({_br_rs}, s) == old(usage({_br_rs}, s))))"),
        ("other-slots", f"forall(s, implies(s != some(self.currentSlotIdx), used({_br_rs}, s) == old(used({_br_rs}, s)) and "
                        f"usage({_br_rs}, s) == old(usage({_br_rs}, s))))"),
        ("filled", f"implies(result > 0, used({_br_rs}, some(self.currentSlotIdx)) == PG(self.project))"),
        ("lists", f"forall(s, forall(t, implies(s != t and s in {_br_rs}.slotTaskUsage and t in {_br_rs}.slotTaskUsage, "
                  f"{_br_rs}.slotTaskUsage[s] != {_br_rs}.slotTaskUsage[t])))"),
        ("board-size", f"{_br_rs}.scoreboard == old({_br_rs}.scoreboard) and len(some({_br_rs}.scoreboard).sb) == old(len(some({_br_rs}.scoreboard).sb))"),
        # the task's own entry: exactly one, last in the slot, when the booking succeeded
        ("entry", f"implies(result > 0, some(self.currentSlotIdx) in {_br_rs}.slotTaskUsage and len({_br_rs}.slotTaskUsage[some(self.currentSlotIdx)]) >= 1 and "
                  f"{_br_rs}.slotTaskUsage[some(self.currentSlotIdx)][len({_br_rs}.slotTaskUsage[some(self.currentSlotIdx)]) - 1][0] == self.property and "
                  f"{_br_rs}.slotTaskUsage[some(self.currentSlotIdx)][len({_br_rs}.slotTaskUsage[some(self.currentSlotIdx)]) - 1][1] > 0 and "
                  f"result == {_br_rs}.slotTaskUsage[some(self.currentSlotIdx)][len({_br_rs}.slotTaskUsage[some(self.currentSlotIdx)]) - 1][1] / 3600 * "
                  f"ite(attr(resource, 'efficiency', self.scenarioIdx) is None or some(attr(resource, 'efficiency', self.scenarioIdx)) == 0, 1, some(attr(resource, 'efficiency', self.scenarioIdx))))"),
        ("others", f"forall(o, 'Ref:ResourceScenario', implies(o != {_br_rs} and old(RSsep(o, {_br_rs})), LedgerSame(o) and RSsep(o, {_br_rs}) and "
                   "implies(old(EntriesFit(o)), EntriesFit(o)) and implies(old(ListsDistinct(o)), ListsDistinct(o))))"),
        # C05: a booking happens only while the task's own and inherited limits admit it
        ("task-limits", "implies(result > 0, forall(j, implies(chain_in(self.property, j) and TLimOn(chain(self.property, j), self.scenarioIdx), "
                        "old(LimitsOkSpec(some(TLim(chain(self.property, j), self.scenarioIdx)), some(self.currentSlotIdx), True, resource.id)))))"),
        ("on-shift", f"implies(result > 0, old(OnShiftSpec({_br_rs}, some(self.currentSlotIdx))))"),
        ("cursor-kept", "self.currentSlotIdx == old(self.currentSlotIdx) and self.slotStartOffset == old(self.slotStartOffset) "
                        "and self.doneEffort == old(self.doneEffort)"),
    ],
    calls={
        "res_scenario.prepareScheduling": ("havoc", NoneT, ["ResourceScenario.scoreboard"]),
        "res_scenario.available": ("contract", RS + "::ResourceScenario.available"),
        "res_scenario.book": ("contract", RS + "::ResourceScenario.book"),
        "self.limitsOk": ("contract", TS + "::TaskScenario.limitsOk"),
    },
    static={"hasattr(self, 'slotStartOffset')": True},
    modifies=[m.replace("sb_idx", "some(self.currentSlotIdx)").replace("self.slot", f"{_br_rs}.slot").replace("self.first", f"{_br_rs}.first")
              .replace("self.last", f"{_br_rs}.last").replace("some(self.scoreboard)", f"some({_br_rs}.scoreboard)").replace("@self", f"@{_br_rs}")
              for m in L.BOOK_MODIFIES],
)

# ---- the world a task scenario books into: every resource is prepared, consistent and separated from the others --
ghost("ResOk", ["r", "ts"],
      "r.data is not None and 0 <= ts.scenarioIdx and ts.scenarioIdx < len(some(r.data)) and some(r.data)[ts.scenarioIdx] is not None and "
      "RSof(r, ts.scenarioIdx).scoreboard is not None and RSof(r, ts.scenarioIdx).project == ts.project and "
      "RSof(r, ts.scenarioIdx).property == r and RSof(r, ts.scenarioIdx).scenarioIdx == ts.scenarioIdx and "
      "Upper(ts.project) < len(some(RSof(r, ts.scenarioIdx).scoreboard).sb) and "
      "Ledger(RSof(r, ts.scenarioIdx)) and ListsDistinct(RSof(r, ts.scenarioIdx)) and EntriesFit(RSof(r, ts.scenarioIdx)) and "
      "NodeLimWf(r, ts.scenarioIdx) and AncLimWf(r, ts.scenarioIdx) and "
      "(attr(r, 'efficiency', ts.scenarioIdx) is None or some(attr(r, 'efficiency', ts.scenarioIdx)) >= 0)")
ghost("World", ["ts"],
      "forall(r, 'Ref:Resource', ResOk(r, ts) and implies(ts.project.scoreboard is not None, "
      "some(RSof(r, ts.scenarioIdx).scoreboard).sb != some(ts.project.scoreboard).sb)) and "
      "forall(a, 'Ref:Resource', forall(b, 'Ref:Resource', implies(a != b, RSof(a, ts.scenarioIdx) != RSof(b, ts.scenarioIdx) and "
      "RSsep(RSof(a, ts.scenarioIdx), RSof(b, ts.scenarioIdx)))))", opaque=Bool, types=[Ref("TaskScenario")])
ghost("TaskOk", ["ts"],
      "ts.currentSlotIdx is not None and 0 <= some(ts.currentSlotIdx) and some(ts.currentSlotIdx) <= Upper(ts.project) and "
      "implies(ts.project.scoreboard is not None, Upper(ts.project) < len(some(ts.project.scoreboard).sb)) and "
      "PG(ts.project) >= 1 and ts.project.attributes['start'] is not None and ts.project.attributes['end'] is not None and "
      "0 <= ts.slotStartOffset and ts.slotStartOffset < PG(ts.project) and ChainLimWf(ts.property, ts.scenarioIdx) and "
      "ts.property.data is not None and ts.scenarioIdx < len(some(ts.property.data))")

contract(
    TS + "::TaskScenario._resolve_resource", props=["C03", "C15"],
    params={"self": Ref("TaskScenario"), "alloc": Ref("Resource")}, ret=Opt(Ref("Resource")),
    ensures=[("identity", "result is not None and some(result) == alloc")],
    note="typed for allocations that are Resource objects (what the parser stores); the id-string branch is the "
         "lookup checked under C15",
)

contract(
    TS + "::TaskScenario._selectBestResources", props=["C03"],
    params={"self": Ref("TaskScenario"), "primary_resources": ResList,
            "alternative_resources": ResList, "effort": Real},
    ret=ResList,
    ensures=[
        # C03: an allocation with alternatives books exactly ONE of the candidates: the primary allocation as a whole,
        # or a single alternative (never several alternatives together)
        ("one-candidate", "result == primary_resources or len(result) == 0 or "
                          "(len(result) == 1 and exists(k, 0, len(alternative_resources), result[0] == alternative_resources[k]))"),
        ("no-alternatives", "implies(len(alternative_resources) == 0 and len(primary_resources) > 0, result == primary_resources)"),
        ("something", "implies(len(primary_resources) > 0 or len(alternative_resources) > 0, len(result) > 0)"),
    ],
    calls={"self._estimateCompletionTime": ("pure", Opt(DT))},
    static={"hasattr(self, '_selectedAlternative')": True},
    loops={0: {"inv": [
        ("best", "best == primary_resources or (len(best) == 1 and exists(k, 0, _i, best[0] == alternative_resources[k]))"),
        ("taken", "implies(_i > 0 and len(primary_resources) == 0, len(best) == 1)"),
    ], "locals": {"best": ResList, "best_end": Opt(DT), "chose_alternative": Bool, "candidate": ResList,
                  "candidate_end": Opt(DT)}}},
    locals={"best": ResList, "candidate": ResList},
    modifies=["TaskScenario._selectedAlternative@self"],
    note="_estimateCompletionTime is treated as a pure estimate (it reads availability only)",
)

_SEL = "some(self._selectedResources)"
_BR_FRAME = ["$region:ResourceScenario.slotSecondsUsed", "$region:ResourceScenario.slotTaskUsage",
             "$region:ResourceScenario.firstBookedSlots", "$region:ResourceScenario.lastBookedSlots",
             "ResourceScenario._effort", "ResourceScenario.firstBookedSlot", "ResourceScenario.lastBookedSlot",
             "$region:Scoreboard.sb", "$region:@duties", "Limit._dirty", "$region:Limit._scoreboard"]
# last-booked facts that the final-slot release relies on
ghost("JustBooked", ["ts"],
      "ts._lastBookedResource is not None and "
      "some(ts.currentSlotIdx) in MyRS(ts).slotTaskUsage and used(MyRS(ts), some(ts.currentSlotIdx)) == PG(ts.project) and "
      "len(MyList(ts)) >= 1 and MyList(ts)[len(MyList(ts)) - 1][0] == ts.property and MyEntry(ts) > 0")

contract(
    TS + "::TaskScenario.bookResources", props=["C01", "C03", "C04", "C06"], reveal=["World"],
    params={"self": Ref("TaskScenario")},
    requires=[("task", "TaskOk(self)"), ("world", "World(self)"),
              ("forward", "attr(self.property, 'forward', self.scenarioIdx) is not None"),
              ("distinct", "implies(self._selectedResources is not None, forall(a, 0, len(some(self._selectedResources)), "
                           "forall(b, 0, len(some(self._selectedResources)), implies(a != b, "
                           "some(self._selectedResources)[a] != some(self._selectedResources)[b]))))"),
              ("distinct-alloc", "implies(attr(self.property, 'allocate', self.scenarioIdx) is not None, "
                                 "forall(a, 0, len(some(attr(self.property, 'allocate', self.scenarioIdx))), "
                                 "forall(b, 0, len(some(attr(self.property, 'allocate', self.scenarioIdx))), implies(a != b, "
                                 "some(attr(self.property, 'allocate', self.scenarioIdx))[a] != some(attr(self.property, 'allocate', self.scenarioIdx))[b]))))"),
              ("effort", "self.doneEffort >= 0")],
    assumes=anc_axioms_all("Resource") + L.anc_axioms("self.property"),
    ensures=[
        ("world", "World(self)"),
        ("cursor-kept", "self.currentSlotIdx == old(self.currentSlotIdx) and self.slotStartOffset == old(self.slotStartOffset)"),
        # C03: effort only ever grows, by what the booked slot yields
        ("effort-monotone", "self.doneEffort >= old(self.doneEffort)"),
        # C04/C06: the start is written on the first credit only, at the slot start plus the dependency offset
        ("start-once", "implies(TStart(self.property, self.scenarioIdx) != old(TStart(self.property, self.scenarioIdx)), "
                       "old(self.doneEffort) == 0 and self.doneEffort > 0 and some(attr(self.property, 'forward', self.scenarioIdx)) and "
                       "TStart(self.property, self.scenarioIdx) is not None and "
                       "secs(some(TStart(self.property, self.scenarioIdx))) == secs(PT(self.project, some(self.currentSlotIdx))) + self.slotStartOffset)"),
        ("first-credit-sets-start", "implies(some(attr(self.property, 'forward', self.scenarioIdx)) and old(self.doneEffort) == 0 and "
                                    "self.doneEffort > 0 and EffortOf(self) > 0, TStart(self.property, self.scenarioIdx) is not None and "
                                    "secs(some(TStart(self.property, self.scenarioIdx))) == secs(PT(self.project, some(self.currentSlotIdx))) + self.slotStartOffset)"),
        ("end-kept", "TEnd(self.property, self.scenarioIdx) == old(TEnd(self.property, self.scenarioIdx)) and "
                     "attr(self.property, 'scheduled', self.scenarioIdx) == old(attr(self.property, 'scheduled', self.scenarioIdx))"),
        # C01: when effort was credited, the last booked resource's slot is full and the task's entry sits last
        ("just-booked", "implies(self.doneEffort > old(self.doneEffort), JustBooked(self))"),
        # C03: the choice between primary and alternative resources is made once
        ("pboard-kept", "PBoardSame(self.project) and self.project.scoreboard == old(self.project.scoreboard)"),
        ("selected-once", "implies(old(self._selectedResources) is not None, self._selectedResources == old(self._selectedResources))"),
        ("selected-distinct", "implies(self._selectedResources is not None, forall(a, 0, len(some(self._selectedResources)), "
                              "forall(b, 0, len(some(self._selectedResources)), implies(a != b, "
                              "some(self._selectedResources)[a] != some(self._selectedResources)[b]))))"),
    ],
    calls={
        "self._resolve_resource": ("contract", TS + "::TaskScenario._resolve_resource"),
        "self._selectBestResources": ("contract", TS + "::TaskScenario._selectBestResources"),
        "self.bookResource": ("contract", TS + "::TaskScenario.bookResource"),
        "self.limitsOk": ("contract", TS + "::TaskScenario.limitsOk"),
        "res_scenario.available": ("contract", RS + "::ResourceScenario.available"),
        "res_scenario.prepareScheduling": ("havoc", NoneT, ["ResourceScenario.scoreboard"]),
        "self.project.idxToDate": ("spec", ["self", "i"], "ite(self.attributes['start'] is None, None, PT(self, i))"),
    },
    static={"hasattr(self, '_selectedResources')": True, "hasattr(self, '_lastBookedResource')": True,
            "hasattr(self, 'slotStartOffset')": True},
    no_merge=["effort_gained > 0", "not hasattr(self, '_selectedResources') or self._selectedResources is None"],
    loops={
        2: {"inv": [("copy", "len(primary_resources) == _i and forall(k, 0, _i, primary_resources[k] == alloc_data[k])"),
                    ("untouched", "self._selectedResources == old(self._selectedResources) and len(alternative_resources) == 0")],
            "locals": {"resource": Opt(Ref("Resource"))}},
        3: {"locals": {"res_scenario": Opt(Ref("ResourceScenario"))}},
        4: {"inv": [
            ("world", "World(self)"),
            ("task", "TaskOk(self)"),
            ("cursor-kept", "self.currentSlotIdx == old(self.currentSlotIdx) and self.slotStartOffset == old(self.slotStartOffset) "
                            "and self.doneEffort == old(self.doneEffort)"),
            ("attrs-kept", "TStart(self.property, self.scenarioIdx) == old(TStart(self.property, self.scenarioIdx)) and "
                           "TEnd(self.property, self.scenarioIdx) == old(TEnd(self.property, self.scenarioIdx)) and "
                           "attr(self.property, 'scheduled', self.scenarioIdx) == old(attr(self.property, 'scheduled', self.scenarioIdx))"),
            ("gain", "total_effort_this_slot >= 0 and iff(booked_any, total_effort_this_slot > 0)"),
            ("pboard-kept", "PBoardSame(self.project)"),
            ("just-booked", "implies(booked_any, JustBooked(self))"),
            ("distinct", "forall(a, 0, len(resources_to_book), forall(b, 0, len(resources_to_book), implies(a != b, "
                         "resources_to_book[a] != resources_to_book[b])))"),
            ("last-is-earlier", "implies(booked_any, exists(k, 0, _i, some(self._lastBookedResource) == resources_to_book[k]))"),
            # instance of World needed by the next iteration, stated explicitly (keeps the solver's search small)
            ("sep-next", "implies(booked_any and _i < len(resources_to_book), "
                         "some(self._lastBookedResource) != resources_to_book[_i] and "
                         "MyRS(self) != RSof(resources_to_book[_i], self.scenarioIdx) and "
                         "RSsep(MyRS(self), RSof(resources_to_book[_i], self.scenarioIdx)))"),
        ], "locals": {"effort_gained": Real, "total_effort_this_slot": Real, "booked_any": Bool}},
    },
    locals={"primary_resources": ResList, "alternative_resources": ResList, "total_effort_this_slot": Real},
    modifies=_BR_FRAME + ["TaskScenario.doneEffort@self", "TaskScenario._lastBookedResource@self",
                          "TaskScenario._lastBookedSlot@self", "TaskScenario._selectedResources@self",
                          "TaskScenario._selectedAlternative@self", "@start@self.property"],
)

_SS_MOD = _BR_FRAME + ["TaskScenario.doneEffort@self", "TaskScenario.doneDuration@self", "TaskScenario.doneLength@self",
                       "TaskScenario._lastBookedResource@self", "TaskScenario._lastBookedSlot@self",
                       "TaskScenario._selectedResources@self", "TaskScenario._selectedAlternative@self",
                       "@start@self.property", "@end@self.property"]
_ss_sel_distinct = ("distinct", "implies(self._selectedResources is not None, forall(a, 0, len(some(self._selectedResources)), "
                                "forall(b, 0, len(some(self._selectedResources)), implies(a != b, "
                                "some(self._selectedResources)[a] != some(self._selectedResources)[b]))))")
_ss_alloc_distinct = ("distinct-alloc", "implies(attr(self.property, 'allocate', self.scenarioIdx) is not None, "
                                        "forall(a, 0, len(some(attr(self.property, 'allocate', self.scenarioIdx))), "
                                        "forall(b, 0, len(some(attr(self.property, 'allocate', self.scenarioIdx))), implies(a != b, "
                                        "some(attr(self.property, 'allocate', self.scenarioIdx))[a] != some(attr(self.property, 'allocate', self.scenarioIdx))[b]))))")

contract(
    TS + "::TaskScenario.propagateDate", props=["C06"],
    params={"self": Ref("TaskScenario"), "date": DT, "atEnd": Bool},
    ensures=[("end", "implies(atEnd, TEnd(self.property, self.scenarioIdx) is not None and some(TEnd(self.property, self.scenarioIdx)) == date "
                     "and TStart(self.property, self.scenarioIdx) == old(TStart(self.property, self.scenarioIdx)))"),
             ("start", "implies(not atEnd, TStart(self.property, self.scenarioIdx) is not None and some(TStart(self.property, self.scenarioIdx)) == date "
                       "and TEnd(self.property, self.scenarioIdx) == old(TEnd(self.property, self.scenarioIdx)))")],
    modifies=["@start@self.property", "@end@self.property"],
)

# effort tasks only (the scheduler's main case); milestones are covered by the milestone clause
contract(
    TS + "::TaskScenario.scheduleSlot", props=["C01", "C03", "C04", "C06"], reveal=["World"],
    params={"self": Ref("TaskScenario")}, ret=Bool,
    requires=[("task", "TaskOk(self)"), ("world", "World(self)"),
              ("forward", "attr(self.property, 'forward', self.scenarioIdx) is not None"),
              _ss_sel_distinct, _ss_alloc_distinct,
              ("effort", "self.doneEffort >= 0"),
              ("no-duration", "attr(self.property, 'duration', self.scenarioIdx) is None or some(attr(self.property, 'duration', self.scenarioIdx)) == 0"),
              ("not-contiguous", "attr(self.property, 'flags', self.scenarioIdx) is None"),
              ("eff-positive", "forall(r, 'Ref:Resource', Eff(r, self.scenarioIdx) > 0)"),
              # the slot walk calls this only while the task still lacks effort
              ("unfinished", "implies(IsEffortTask(self), self.doneEffort < EffortOf(self) - 1/1000000000)")],
    assumes=anc_axioms_all("Resource") + L.anc_axioms("self.property"),
    ensures=[
        ("world", "World(self)"),
        ("cursor-kept", "self.currentSlotIdx == old(self.currentSlotIdx) and self.slotStartOffset == old(self.slotStartOffset)"),
        ("effort-monotone", "self.doneEffort >= old(self.doneEffort)"),
        # C03: an effort task stops exactly when the credited effort reaches the requested effort
        # (to within a nanohour: the credited effort is a floating-point sum)
        ("stop", "implies(IsEffortTask(self), iff(not result, self.doneEffort >= some(attr(self.property, 'effort', self.scenarioIdx)) - 1/1000000000))"),
        ("end-on-stop", "implies(IsEffortTask(self) and not result and some(attr(self.property, 'forward', self.scenarioIdx)), "
                        "TEnd(self.property, self.scenarioIdx) is not None)"),
        ("start-on-stop-backward", "implies(IsEffortTask(self) and not result and not some(attr(self.property, 'forward', self.scenarioIdx)), "
                                   "TStart(self.property, self.scenarioIdx) is not None)"),
        ("end-kept-while-running", "implies(IsEffortTask(self) and result, TEnd(self.property, self.scenarioIdx) == old(TEnd(self.property, self.scenarioIdx)))"),
        ("end-kept-backward", "implies(IsEffortTask(self) and not some(attr(self.property, 'forward', self.scenarioIdx)), "
                              "TEnd(self.property, self.scenarioIdx) == old(TEnd(self.property, self.scenarioIdx)))"),
        # C04/C06: the start is written on the first credit only
        ("start-once", "implies(IsEffortTask(self) and some(attr(self.property, 'forward', self.scenarioIdx)) and "
                       "TStart(self.property, self.scenarioIdx) != old(TStart(self.property, self.scenarioIdx)), "
                       "old(self.doneEffort) == 0 and self.doneEffort > 0 and TStart(self.property, self.scenarioIdx) is not None and "
                       "secs(some(TStart(self.property, self.scenarioIdx))) == secs(PT(self.project, some(self.currentSlotIdx))) + self.slotStartOffset)"),
        ("first-credit-sets-start", "implies(IsEffortTask(self) and some(attr(self.property, 'forward', self.scenarioIdx)) and "
                                    "old(self.doneEffort) == 0 and self.doneEffort > 0, TStart(self.property, self.scenarioIdx) is not None and "
                                    "secs(some(TStart(self.property, self.scenarioIdx))) == secs(PT(self.project, some(self.currentSlotIdx))) + self.slotStartOffset)"),
        # C06: a milestone has start == end at the dependency bound
        ("milestone", "implies(IsMilestone(self) and some(attr(self.property, 'forward', self.scenarioIdx)) and "
                      "old(TStart(self.property, self.scenarioIdx)) is None, "
                      "not result and TStart(self.property, self.scenarioIdx) is not None and "
                      "TStart(self.property, self.scenarioIdx) == TEnd(self.property, self.scenarioIdx) and "
                      "secs(some(TStart(self.property, self.scenarioIdx))) == secs(PT(self.project, some(self.currentSlotIdx))) + self.slotStartOffset)"),
        ("pboard-kept", "PBoardSame(self.project) and self.project.scoreboard == old(self.project.scoreboard)"),
        ("selected-once", "implies(old(self._selectedResources) is not None, self._selectedResources == old(self._selectedResources))"),
        _ss_sel_distinct,
        ("scheduled-kept", "attr(self.property, 'scheduled', self.scenarioIdx) == old(attr(self.property, 'scheduled', self.scenarioIdx))"),
    ],
    calls={
        "self.bookResources": ("contract", TS + "::TaskScenario.bookResources"),
        "self._calculatePreciseEndTimeAndRelease": ("contract", TS + "::TaskScenario._calculatePreciseEndTimeAndRelease"),
        "self.propagateDate": ("contract", TS + "::TaskScenario.propagateDate"),
        "self.project.idxToDate": ("spec", ["self", "i"], "ite(self.attributes['start'] is None, None, PT(self, i))"),
        "self.project.dateToIdx": ("spec", ["self", "d"], "trunc((secs(d) - secs(PStart(self))) / PG(self))"),
        "self._hasContiguousBlock": ("pure", Bool),
    },
    static={"hasattr(self, 'doneEffort')": True, "hasattr(self, 'doneDuration')": True, "hasattr(self, 'doneLength')": True},
    modifies=_SS_MOD,
)
ghost("EffortOf", ["ts"], "ite(attr(ts.property, 'effort', ts.scenarioIdx) is None, 0, some(attr(ts.property, 'effort', ts.scenarioIdx)))")
ghost("LengthOf", ["ts"], "ite(attr(ts.property, 'length', ts.scenarioIdx) is None, 0, some(attr(ts.property, 'length', ts.scenarioIdx)))")
ghost("MsFlag", ["ts"], "attr(ts.property, 'milestone', ts.scenarioIdx) is not None and some(attr(ts.property, 'milestone', ts.scenarioIdx))")
ghost("IsMilestone", ["ts"], "MsFlag(ts) or (EffortOf(ts) == 0 and LengthOf(ts) == 0)")
ghost("IsEffortTask", ["ts"], "not IsMilestone(ts) and EffortOf(ts) > 0")
