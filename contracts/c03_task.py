"""C01 / C03 / C05 / C06 kernels on the task side.

  scriptplan/core/task_scenario.py :: _calculatePreciseEndTimeAndRelease, bookResource, getAllLimits, limitsOk,
                                      incLimits
"""
from contracts.model import *  # noqa
import contracts.c01_ledger as L  # noqa

TS = "scriptplan/core/task_scenario.py"
RS = "scriptplan/core/resource_scenario.py"
LM = "scriptplan/core/limits.py"

# the final-slot accounting of a finishing task. Pre-state: the task has just booked `cur` on resource r:
# its entry is the last one of the slot, the slot is full.
_rel_pre = [
    ("slot", "self.currentSlotIdx is not None"),
    ("resource", "self._lastBookedResource is not None and some(self._lastBookedResource).data is not None and "
                 "0 <= self.scenarioIdx and self.scenarioIdx < len(some(some(self._lastBookedResource).data)) and "
                 "some(some(self._lastBookedResource).data)[self.scenarioIdx] is not None"),
    ("same-project", "RSof(some(self._lastBookedResource), self.scenarioIdx).project == self.project"),
    ("g", "PG(self.project) >= 1 and self.project.attributes['start'] is not None"),
    ("eff", "Eff(some(self._lastBookedResource), self.scenarioIdx) > 0"),
    ("ledger", "Ledger(RSof(some(self._lastBookedResource), self.scenarioIdx))"),
    ("lists", "forall(s, forall(t, implies(s != t and s in MyRS(self).slotTaskUsage and t in MyRS(self).slotTaskUsage, "
              "MyRS(self).slotTaskUsage[s] != MyRS(self).slotTaskUsage[t])))"),
    # just booked: the slot is full, and this task's entry is the only one of this task in the slot and sits last
    ("booked", "some(self.currentSlotIdx) in RSof(some(self._lastBookedResource), self.scenarioIdx).slotTaskUsage and "
               "used(RSof(some(self._lastBookedResource), self.scenarioIdx), some(self.currentSlotIdx)) == PG(self.project)"),
    ("entry", "len(RSof(some(self._lastBookedResource), self.scenarioIdx).slotTaskUsage[some(self.currentSlotIdx)]) >= 1 and "
              "forall(k, 0, len(RSof(some(self._lastBookedResource), self.scenarioIdx).slotTaskUsage[some(self.currentSlotIdx)]), "
              "iff(RSof(some(self._lastBookedResource), self.scenarioIdx).slotTaskUsage[some(self.currentSlotIdx)][k][0] == self.property, "
              "k == len(RSof(some(self._lastBookedResource), self.scenarioIdx).slotTaskUsage[some(self.currentSlotIdx)]) - 1))"),
    ("entry-positive", "MyEntry(self) > 0 and MyEntry(self) <= PG(self.project)"),
    # the effort still missing is what this booking was for
    ("need", "required_effort - effort_before_slot > 0 and "
             "required_effort - effort_before_slot <= MyEntry(self) / 3600 * Eff(some(self._lastBookedResource), self.scenarioIdx)"),
]
ghost("MyRS", ["ts"], "RSof(some(ts._lastBookedResource), ts.scenarioIdx)")
ghost("MyList", ["ts"], "MyRS(ts).slotTaskUsage[some(ts.currentSlotIdx)]")
ghost("MyEntry", ["ts"], "MyList(ts)[len(MyList(ts)) - 1][1]")

contract(
    TS + "::TaskScenario._calculatePreciseEndTimeAndRelease", props=["C01", "C03", "C06"],
    params={"self": Ref("TaskScenario"), "required_effort": Real, "effort_before_slot": Real, "forward": Bool},
    ret=Tuple(DT, Real),
    requires=_rel_pre,
    ensures=[
        # C01: releasing the unused tail keeps the slot consistent: per-task portions still fit the slot total
        ("ledger", "Ledger(MyRS(self))"),
        ("frame", "forall(s, implies(s != some(self.currentSlotIdx), used(MyRS(self), s) == old(used(MyRS(self), s)) "
                  "and usage(MyRS(self), s) == old(usage(MyRS(self), s))))"),
        # C03: after trimming, the task's portion of the final slot is exactly what the missing effort needs
        ("exact-effort", "MyEntry(self) / 3600 * Eff(some(self._lastBookedResource), self.scenarioIdx) == required_effort - effort_before_slot"),
        ("returned-seconds", "result[1] == MyEntry(self)"),
        # C06 (forward): the reported end lies after everything that was in the slot before this task plus the
        # task's own portion (to within the one-second rounding)
        ("end-after-work", "implies(forward, secs(result[0]) - secs(PT(self.project, some(self.currentSlotIdx))) >= "
                           "old(PG(self.project) - MyEntry(self)) + MyEntry(self) - 1/2)"),
        ("end-in-slot", "implies(forward, secs(result[0]) <= secs(PT(self.project, some(self.currentSlotIdx))) + PG(self.project) + 1/2)"),
        # C06 (backward): the reported start lies before the task's portion, which ends where later work begins
        ("start-before-work", "implies(not forward, secs(PT(self.project, some(self.currentSlotIdx))) + PG(self.project) - secs(result[0]) >= "
                              "old(PG(self.project) - MyEntry(self)) + MyEntry(self) - 1/2)"),
    ],
    calls={"self.project.idxToDate": ("spec", ["self", "i"], "ite(self.attributes['start'] is None, None, PT(self, i))")},
    static={},
    locals={"resource": Opt(Ref("Resource")), "slot_start": Opt(DT)},
    modifies=["$obj:MyRS(self).slotSecondsUsed", "$obj:MyList(self)"],
)

# ---- task-side limits (C05: all tasks below a limited task together) ----------------------------------------------
# chain(t, j): t itself for j == -1, its (j+1)-th ancestor for j >= 0
ghost("chain", ["t", "j"], "ite(j == -1, t, some(anc(t, j)))")
ghost("chain_in", ["t", "j"], "j == -1 or (j >= 0 and anc(t, j) is not None)")
ghost("TLim", ["n", "sc"], "attr(n, 'limits', sc)")
ghost("TLimOn", ["n", "sc"], "TLim(n, sc) is not None and len(some(TLim(n, sc))._limits) > 0")
ghost("ChainLimWf", ["t", "sc"], "forall(j, implies(chain_in(t, j) and TLim(chain(t, j), sc) is not None, LimitsWf(some(TLim(chain(t, j), sc)))))")

contract(
    TS + "::TaskScenario.getAllLimits", props=["C05"],
    params={"self": Ref("TaskScenario")}, ret=List(Ref("Limits")),
    assumes=L.anc_axioms("self.property"),
    ensures=[
        # every limits object of the task and of every enclosing task is in the result, and nothing else
        ("complete", "forall(j, implies(chain_in(self.property, j) and TLimOn(chain(self.property, j), self.scenarioIdx), "
                     "exists(k, 0, len(result), result[k] == some(TLim(chain(self.property, j), self.scenarioIdx)))))"),
        ("sound", "forall(k, 0, len(result), exists(j, j >= -1 and chain_in(self.property, j) and TLimOn(chain(self.property, j), self.scenarioIdx) "
                  "and result[k] == some(TLim(chain(self.property, j), self.scenarioIdx))))"),
    ],
    loops={0: {"inv": [
        ("cursor", "task == ite(_k == 0, self.property, anc(self.property, _k - 1))"),
        ("complete", "forall(j, -1, _k - 1, implies(chain_in(self.property, j) and TLimOn(chain(self.property, j), self.scenarioIdx), "
                     "exists(k, 0, len(all_limits), all_limits[k] == some(TLim(chain(self.property, j), self.scenarioIdx)))))"),
        ("sound", "forall(k, 0, len(all_limits), exists(j, j >= -1 and j < _k - 1 and chain_in(self.property, j) and "
                  "TLimOn(chain(self.property, j), self.scenarioIdx) and all_limits[k] == some(TLim(chain(self.property, j), self.scenarioIdx))))"),
    ], "locals": {"task": Opt(Ref("Task")), "limits": Opt(Ref("Limits"))}}},
    locals={"all_limits": local(List(Ref("Limits")), "all_limits"), "task": Opt(Ref("Task"))},
)

ghost("ResId", ["r"], "ite(r is None, None, some(r).id)")
_gal_post_as_pre = [
    ("complete", "forall(j, implies(chain_in(self.property, j) and TLimOn(chain(self.property, j), self.scenarioIdx), "
                 "exists(k, 0, len(result), result[k] == some(TLim(chain(self.property, j), self.scenarioIdx)))))"),
]

contract(
    TS + "::TaskScenario.limitsOk", props=["C05"],
    params={"self": Ref("TaskScenario"), "sbIdx": Int, "resource": Opt(Ref("Resource"))}, ret=Bool,
    defaults={"resource": None},
    requires=[("wf", "ChainLimWf(self.property, self.scenarioIdx)")],
    assumes=L.anc_axioms("self.property"),
    ensures=[
        # C05: a slot is accepted only if the limits of the task and of every enclosing task admit it
        ("sound", "implies(result, forall(j, implies(chain_in(self.property, j) and TLimOn(chain(self.property, j), self.scenarioIdx), "
                  "LimitsOkSpec(some(TLim(chain(self.property, j), self.scenarioIdx)), sbIdx, True, ResId(resource)))))"),
    ],
    calls={"self.getAllLimits": ("contract", TS + "::TaskScenario.getAllLimits"),
           # functional form of Limits.ok, proved as Limits.ok/exact (a contract call inside the search loop
           # would lose the dependence of the answer on the loop index)
           "limits.ok": ("spec", ["self", "i", "upper", "resource"], "LimitsOkSpec(self, i, upper, resource)")},
)

contract(
    TS + "::TaskScenario.incLimits", variant="counting", props=["C05"],
    params={"self": Ref("TaskScenario"), "sbIdx": Int, "resource": Opt(Ref("Resource"))},
    defaults={"resource": None},
    requires=[("wf", "ChainLimWf(self.property, self.scenarioIdx)")],
    assumes=L.anc_axioms("self.property"),
    ensures=[("ledger-frame", "True")],
    calls={"self.getAllLimits": ("contract", TS + "::TaskScenario.getAllLimits"),
           "limits.inc": ("contract", LM + "::Limits.inc")},
    modifies=["Limit._dirty", "$region:Limit._scoreboard"],
    note="every limits object of the chain receives inc (call-site preconditions proved); the aggregated counting "
         "postcondition across distinct limits objects is not carried (needs separation of their counter lists)",
)

_br_rs = "RSof(resource, self.scenarioIdx)"
contract(
    TS + "::TaskScenario.bookResource", props=["C01", "C03", "C05", "C06"],
    params={"self": Ref("TaskScenario"), "resource": Ref("Resource")}, ret=Real,
    requires=[
        ("data", "resource.data is not None and 0 <= self.scenarioIdx and self.scenarioIdx < len(some(resource.data)) and "
                 "some(resource.data)[self.scenarioIdx] is not None"),
        ("prepared", f"{_br_rs}.scoreboard is not None"),
        ("same", f"{_br_rs}.project == self.project and {_br_rs}.property == resource and {_br_rs}.scenarioIdx == self.scenarioIdx"),
        ("slot", "self.currentSlotIdx is not None and 0 <= some(self.currentSlotIdx) and "
                 f"some(self.currentSlotIdx) < len(some({_br_rs}.scoreboard).sb) and "
                 "implies(self.project.scoreboard is not None, some(self.currentSlotIdx) < len(some(self.project.scoreboard).sb))"),
        ("g", "PG(self.project) >= 1 and self.project.attributes['start'] is not None"),
        ("offset", "0 <= self.slotStartOffset and self.slotStartOffset < PG(self.project)"),
        ("ledger", f"Ledger({_br_rs})"),
        ("lists", f"forall(s, forall(t, implies(s != t and s in {_br_rs}.slotTaskUsage and t in {_br_rs}.slotTaskUsage, "
                  f"{_br_rs}.slotTaskUsage[s] != {_br_rs}.slotTaskUsage[t])))"),
        ("res-limits-wf", "NodeLimWf(resource, self.scenarioIdx) and AncLimWf(resource, self.scenarioIdx)"),
        ("task-limits-wf", "ChainLimWf(self.property, self.scenarioIdx)"),
        ("eff", "attr(resource, 'efficiency', self.scenarioIdx) is None or some(attr(resource, 'efficiency', self.scenarioIdx)) >= 0"),
        ("task-data", "self.property.data is not None and self.scenarioIdx < len(some(self.property.data))"),
    ],
    assumes=L.anc_axioms("self.property") + L.anc_axioms("resource"),
    ensures=[
        ("ledger", f"Ledger({_br_rs})"),
        # C01: the start offset only ever *raises* the used seconds of the first slot, never above the slot
        ("usage-kept-when-refused", f"implies(result == 0, forall(s, usage({_br_rs}, s) == old(usage({_br_rs}, s))))"),
        ("other-slots", f"forall(s, implies(s != some(self.currentSlotIdx), used({_br_rs}, s) == old(used({_br_rs}, s)) and "
                        f"usage({_br_rs}, s) == old(usage({_br_rs}, s))))"),
        ("filled", f"implies(result > 0, used({_br_rs}, some(self.currentSlotIdx)) == PG(self.project))"),
        ("others", f"forall(o, 'Ref:ResourceScenario', implies(o != {_br_rs} and old(RSsep(o, {_br_rs})), LedgerSame(o) and RSsep(o, {_br_rs})))"),
        # C05: a booking happens only while the task's own and inherited limits admit it
        ("task-limits", "implies(result > 0, forall(j, implies(chain_in(self.property, j) and TLimOn(chain(self.property, j), self.scenarioIdx), "
                        "old(LimitsOkSpec(some(TLim(chain(self.property, j), self.scenarioIdx)), some(self.currentSlotIdx), True, resource.id)))))"),
        ("on-shift", f"implies(result > 0, old(OnShiftSpec({_br_rs}, some(self.currentSlotIdx))))"),
        ("cursor-kept", "self.currentSlotIdx == old(self.currentSlotIdx) and self.slotStartOffset == old(self.slotStartOffset) "
                        "and self.doneEffort == old(self.doneEffort)"),
    ],
    calls={
        "res_scenario.prepareScheduling": ("havoc", NoneT, ["ResourceScenario.scoreboard"]),
        "res_scenario.available": ("contract", RS + "::ResourceScenario.available"),
        "res_scenario.book": ("contract", RS + "::ResourceScenario.book"),
        "self.limitsOk": ("contract", TS + "::TaskScenario.limitsOk"),
    },
    static={"hasattr(self, 'slotStartOffset')": True},
    modifies=[m.replace("self.", f"{_br_rs}.").replace("@self", f"@{_br_rs}") for m in L.BOOK_MODIFIES],
)
