"""C01 / C03 / C05 / C06 kernels on the task side.

  scriptplan/core/task_scenario.py :: _calculatePreciseEndTimeAndRelease, bookResource, getAllLimits, limitsOk,
                                      incLimits
"""
from contracts.model import *  # noqa
import contracts.c01_ledger as L  # noqa

TS = "scriptplan/core/task_scenario.py"
RS = "scriptplan/core/resource_scenario.py"
LM = "scriptplan/core/limits.py"

# the final-slot accounting of a finishing task. Pre-state: the task has just booked `cur` on resource r:
# its entry is the last one of the slot, the slot is full.
_rel_pre = [
    ("slot", "self.currentSlotIdx is not None"),
    ("resource", "self._lastBookedResource is not None and some(self._lastBookedResource).data is not None and "
                 "0 <= self.scenarioIdx and self.scenarioIdx < len(some(some(self._lastBookedResource).data)) and "
                 "some(some(self._lastBookedResource).data)[self.scenarioIdx] is not None"),
    ("same-project", "RSof(some(self._lastBookedResource), self.scenarioIdx).project == self.project"),
    ("g", "PG(self.project) >= 1 and self.project.attributes['start'] is not None"),
    ("eff", "Eff(some(self._lastBookedResource), self.scenarioIdx) > 0"),
    ("ledger", "Ledger(RSof(some(self._lastBookedResource), self.scenarioIdx))"),
    ("lists", "forall(s, forall(t, implies(s != t and s in MyRS(self).slotTaskUsage and t in MyRS(self).slotTaskUsage, "
              "MyRS(self).slotTaskUsage[s] != MyRS(self).slotTaskUsage[t])))"),
    # just booked: the slot is full, and this task's entry is the only one of this task in the slot and sits last
    ("booked", "some(self.currentSlotIdx) in RSof(some(self._lastBookedResource), self.scenarioIdx).slotTaskUsage and "
               "used(RSof(some(self._lastBookedResource), self.scenarioIdx), some(self.currentSlotIdx)) == PG(self.project)"),
    ("entry", "len(RSof(some(self._lastBookedResource), self.scenarioIdx).slotTaskUsage[some(self.currentSlotIdx)]) >= 1 and "
              "forall(k, 0, len(RSof(some(self._lastBookedResource), self.scenarioIdx).slotTaskUsage[some(self.currentSlotIdx)]), "
              "iff(RSof(some(self._lastBookedResource), self.scenarioIdx).slotTaskUsage[some(self.currentSlotIdx)][k][0] == self.property, "
              "k == len(RSof(some(self._lastBookedResource), self.scenarioIdx).slotTaskUsage[some(self.currentSlotIdx)]) - 1))"),
    ("entry-positive", "MyEntry(self) > 0 and MyEntry(self) <= PG(self.project)"),
    # the effort still missing is what this booking was for
    ("need", "required_effort - effort_before_slot > 0 and "
             "required_effort - effort_before_slot <= MyEntry(self) / 3600 * Eff(some(self._lastBookedResource), self.scenarioIdx)"),
]
ghost("MyRS", ["ts"], "RSof(some(ts._lastBookedResource), ts.scenarioIdx)")
ghost("MyList", ["ts"], "MyRS(ts).slotTaskUsage[some(ts.currentSlotIdx)]")
ghost("MyEntry", ["ts"], "MyList(ts)[len(MyList(ts)) - 1][1]")

contract(
    TS + "::TaskScenario._calculatePreciseEndTimeAndRelease", props=["C01", "C03", "C06"],
    params={"self": Ref("TaskScenario"), "required_effort": Real, "effort_before_slot": Real, "forward": Bool},
    ret=Tuple(DT, Real),
    requires=_rel_pre,
    ensures=[
        # C01: releasing the unused tail keeps the slot consistent: per-task portions still fit the slot total
        ("ledger", "Ledger(MyRS(self))"),
        ("frame", "forall(s, implies(s != some(self.currentSlotIdx), used(MyRS(self), s) == old(used(MyRS(self), s)) "
                  "and usage(MyRS(self), s) == old(usage(MyRS(self), s))))"),
        # C03: after trimming, the task's portion of the final slot is exactly what the missing effort needs
        ("exact-effort", "MyEntry(self) / 3600 * Eff(some(self._lastBookedResource), self.scenarioIdx) == required_effort - effort_before_slot"),
        ("returned-seconds", "result[1] == MyEntry(self)"),
        # C06 (forward): the reported end lies after everything that was in the slot before this task plus the
        # task's own portion (to within the one-second rounding)
        ("end-after-work", "implies(forward, secs(result[0]) - secs(PT(self.project, some(self.currentSlotIdx))) >= "
                           "old(PG(self.project) - MyEntry(self)) + MyEntry(self) - 1/2)"),
        ("end-in-slot", "implies(forward, secs(result[0]) <= secs(PT(self.project, some(self.currentSlotIdx))) + PG(self.project) + 1/2)"),
        # C06 (backward): the reported start lies before the task's portion, which ends where later work begins
        ("start-before-work", "implies(not forward, secs(PT(self.project, some(self.currentSlotIdx))) + PG(self.project) - secs(result[0]) >= "
                              "old(PG(self.project) - MyEntry(self)) + MyEntry(self) - 1/2)"),
    ],
    calls={"self.project.idxToDate": ("spec", ["self", "i"], "ite(self.attributes['start'] is None, None, PT(self, i))")},
    static={},
    locals={"resource": Opt(Ref("Resource")), "slot_start": Opt(DT)},
)
