"""C10: containers summarise their children.

  scriptplan/core/project.py :: Project._updateContainerTaskStatus
  scriptplan/core/task_scenario.py :: TaskScenario.scheduleContainer
"""
from contracts.model import *  # noqa

PJ = "scriptplan/core/project.py"
TS = "scriptplan/core/task_scenario.py"

# t's dates summarise its children c in scenario sc: all children scheduled; start is the earliest child start and
# end the latest child end (over the children that have such a date)
ghost("AllKidsSched", ["t", "sc"], "forall(k, 0, len(t.children), Sched(t.children[k], sc))")
ghost("StartIsMin", ["t", "sc"],
      "forall(k, 0, len(t.children), implies(TStart(t.children[k], sc) is not None, "
      "TStart(t, sc) is not None and some(TStart(t, sc)) <= some(TStart(t.children[k], sc)))) and "
      "implies(TStart(t, sc) is not None and exists(k, 0, len(t.children), TStart(t.children[k], sc) is not None), "
      "exists(k, 0, len(t.children), TStart(t.children[k], sc) is not None and some(TStart(t.children[k], sc)) == some(TStart(t, sc))))")
ghost("EndIsMax", ["t", "sc"],
      "forall(k, 0, len(t.children), implies(TEnd(t.children[k], sc) is not None, "
      "TEnd(t, sc) is not None and some(TEnd(t, sc)) >= some(TEnd(t.children[k], sc)))) and "
      "implies(TEnd(t, sc) is not None and exists(k, 0, len(t.children), TEnd(t.children[k], sc) is not None), "
      "exists(k, 0, len(t.children), TEnd(t.children[k], sc) is not None and some(TEnd(t.children[k], sc)) == some(TEnd(t, sc))))")

_min_inv = [
    ("min-lower", "forall(k, 0, _i, implies(TStart(children[k], scIdx) is not None, "
                  "min_start is not None and some(min_start) <= some(TStart(children[k], scIdx))))"),
    ("min-witness", "implies(min_start is not None, exists(k, 0, _i, TStart(children[k], scIdx) is not None and "
                    "some(TStart(children[k], scIdx)) == some(min_start)))"),
    ("max-upper", "forall(k, 0, _i, implies(TEnd(children[k], scIdx) is not None, "
                  "max_end is not None and some(max_end) >= some(TEnd(children[k], scIdx))))"),
    ("max-witness", "implies(max_end is not None, exists(k, 0, _i, TEnd(children[k], scIdx) is not None and "
                    "some(TEnd(children[k], scIdx)) == some(max_end)))"),
]

contract(
    PJ + "::Project._updateContainerTaskStatus", props=["C10"],
    params={"self": Ref("Project"), "scIdx": Int},
    requires=[
        # a task is not its own child, and containers do not share child lists
        ("tree", "forall(t, 'Ref:Task', forall(k, 0, len(t.children), t.children[k] != t))"),
    ],
    ensures=[
        # every container that this pass marks as scheduled summarises its children
        ("summary", "forall(t, 'Ref:Task', implies(Sched(t, scIdx) and not old(Sched(t, scIdx)), "
                    "not Leaf(t) and len(t.children) > 0 and AllKidsSched(t, scIdx) and StartIsMin(t, scIdx) and EndIsMax(t, scIdx)))"),
        # leaves are never touched (containers book nothing, leaf dates are the scheduler's)
        ("leaves-untouched", "forall(t, 'Ref:Task', implies(Leaf(t), TStart(t, scIdx) == old(TStart(t, scIdx)) and "
                             "TEnd(t, scIdx) == old(TEnd(t, scIdx)) and attr(t, 'scheduled', scIdx) == old(attr(t, 'scheduled', scIdx))))"),
        ("monotone", "forall(t, 'Ref:Task', implies(old(Sched(t, scIdx)), Sched(t, scIdx)))"),
    ],
    loops={
        0: {"inv": [
            ("summary", "forall(t, 'Ref:Task', implies(Sched(t, scIdx) and not old(Sched(t, scIdx)), "
                        "not Leaf(t) and len(t.children) > 0 and AllKidsSched(t, scIdx) and StartIsMin(t, scIdx) and EndIsMax(t, scIdx)))"),
            ("leaves-untouched", "forall(t, 'Ref:Task', implies(Leaf(t), TStart(t, scIdx) == old(TStart(t, scIdx)) and "
                                 "TEnd(t, scIdx) == old(TEnd(t, scIdx)) and attr(t, 'scheduled', scIdx) == old(attr(t, 'scheduled', scIdx))))"),
            ("monotone", "forall(t, 'Ref:Task', implies(old(Sched(t, scIdx)), Sched(t, scIdx)))"),
        ], "locals": {"min_start": Opt(DT), "max_end": Opt(DT), "child_start": Opt(DT), "child_end": Opt(DT),
                      "all_scheduled": Bool, "children": REG.fields["Task.children"]}},
        1: {"inv": _min_inv, "locals": {"min_start": Opt(DT), "max_end": Opt(DT), "child_start": Opt(DT), "child_end": Opt(DT)}},
    },
    locals={"min_start": Opt(DT), "max_end": Opt(DT)},
    modifies=["@start", "@end", "@scheduled"],
)

contract(
    TS + "::TaskScenario.scheduleContainer", props=["C10", "C11"],
    params={"self": Ref("TaskScenario")},
    requires=[("tree", "forall(k, 0, len(self.property.children), self.property.children[k] != self.property)"),
              ("data", "0 <= self.scenarioIdx and forall(k, 0, len(self.property.children), "
                       "implies(self.property.children[k].data is not None, self.scenarioIdx < len(some(self.property.children[k].data))))")],
    ensures=[
        # a container is marked scheduled only when every child is, and then spans exactly its children
        ("summary", "implies(self.scheduled and not old(self.scheduled), "
                    "Sched(self.property, self.scenarioIdx) and "
                    "forall(k, 0, len(self.property.children), implies(self.property.children[k].data is not None and "
                    "len(some(self.property.children[k].data)) > self.scenarioIdx and self.scenarioIdx >= 0 and "
                    "some(self.property.children[k].data)[self.scenarioIdx] is not None, "
                    "Sched(self.property.children[k], self.scenarioIdx) and "
                    "TStart(self.property.children[k], self.scenarioIdx) is not None and "
                    "TEnd(self.property.children[k], self.scenarioIdx) is not None and "
                    "TStart(self.property, self.scenarioIdx) is not None and TEnd(self.property, self.scenarioIdx) is not None and "
                    "some(TStart(self.property, self.scenarioIdx)) <= some(TStart(self.property.children[k], self.scenarioIdx)) and "
                    "some(TEnd(self.property, self.scenarioIdx)) >= some(TEnd(self.property.children[k], self.scenarioIdx)))))"),
        ("start-attained", "implies(self.scheduled and not old(self.scheduled), "
                           "exists(k, 0, len(self.property.children), TStart(self.property.children[k], self.scenarioIdx) is not None and "
                           "some(TStart(self.property.children[k], self.scenarioIdx)) == some(TStart(self.property, self.scenarioIdx))))"),
        ("end-attained", "implies(self.scheduled and not old(self.scheduled), "
                         "exists(k, 0, len(self.property.children), TEnd(self.property.children[k], self.scenarioIdx) is not None and "
                         "some(TEnd(self.property.children[k], self.scenarioIdx)) == some(TEnd(self.property, self.scenarioIdx))))"),
        # leaves and already scheduled containers are left alone
        ("noop", "implies(old(self.scheduled) or Leaf(self.property), "
                 "TStart(self.property, self.scenarioIdx) == old(TStart(self.property, self.scenarioIdx)) and "
                 "TEnd(self.property, self.scenarioIdx) == old(TEnd(self.property, self.scenarioIdx)))"),
        ("children-untouched", "forall(k, 0, len(self.property.children), "
                               "TStart(self.property.children[k], self.scenarioIdx) == old(TStart(self.property.children[k], self.scenarioIdx)) and "
                               "TEnd(self.property.children[k], self.scenarioIdx) == old(TEnd(self.property.children[k], self.scenarioIdx)))"),
    ],
    calls={"self.property.leaf": ("spec", ["self"], "Leaf(self)")},
    loops={0: {"inv": [
        ("seen", "forall(k, 0, _i, implies(self.property.children[k].data is not None and "
                 "len(some(self.property.children[k].data)) > self.scenarioIdx and self.scenarioIdx >= 0 and "
                 "some(self.property.children[k].data)[self.scenarioIdx] is not None, "
                 "Sched(self.property.children[k], self.scenarioIdx) and "
                 "TStart(self.property.children[k], self.scenarioIdx) is not None and TEnd(self.property.children[k], self.scenarioIdx) is not None and "
                 "n_start is not None and n_end is not None and "
                 "some(n_start) <= some(TStart(self.property.children[k], self.scenarioIdx)) and "
                 "some(n_end) >= some(TEnd(self.property.children[k], self.scenarioIdx))))"),
        ("min-witness", "implies(n_start is not None, exists(k, 0, _i, TStart(self.property.children[k], self.scenarioIdx) is not None and "
                        "some(TStart(self.property.children[k], self.scenarioIdx)) == some(n_start)))"),
        ("max-witness", "implies(n_end is not None, exists(k, 0, _i, TEnd(self.property.children[k], self.scenarioIdx) is not None and "
                        "some(TEnd(self.property.children[k], self.scenarioIdx)) == some(n_end)))"),
    ], "locals": {"n_start": Opt(DT), "n_end": Opt(DT), "child_start": Opt(DT), "child_end": Opt(DT),
                  "child_scenario": Opt(Ref("TaskScenario"))}}},
    locals={"n_start": Opt(DT), "n_end": Opt(DT)},
    modifies=["@start@self.property", "@end@self.property", "@scheduled@self.property", "TaskScenario.scheduled@self"],
)
