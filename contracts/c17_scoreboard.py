"""C17 (and the scoreboard half of C13): slot/time conversion and interval scanning.

Functions under contract:
  scriptplan/scheduler/scoreboard.py :: Scoreboard.__init__, clear, idxToDate, dateToIdx, collectIntervals
        (each in two configurations: _USE_CYTHON = True -> calls the .pyx contract; False -> Python fallback)
  scriptplan/_cython/scoreboard_cy.pyx :: _total_seconds, date_to_idx_fast, idx_to_date_fast, collect_intervals_fast
"""
from contracts.common import *  # noqa

SB = "scriptplan/scheduler/scoreboard.py"
CY = "scriptplan/_cython/scoreboard_cy.pyx"
I32 = 2147483647

# ---------------------------------------------------------------------------------------------
# Cython side

contract(
    CY + "::_total_seconds", props=["C17", "C13"], cython=True,
    params={"td": TD}, ret=Real,
    requires=[("usec", "isint(secs(td) * 1000000)")],     # type invariant of datetime.timedelta
    ensures=[("exact", "result == secs(td)")],
    note="timedelta is an integral number of microseconds (CPython type invariant)",
)

contract(
    CY + "::date_to_idx_fast", props=["C17", "C13"], cython=True,
    params={"date": DT, "start_date": DT, "resolution": Int, "size": Int, "force_into_project": Bool}, ret=Int,
    requires=[("res", "resolution >= 1"), ("size", "size >= 1"),
              ("usec", "isint((secs(date) - secs(start_date)) * 1000000)"),
              ("range", f"-{I32} <= (secs(date) - secs(start_date)) / resolution <= {I32}")],
    ensures=[
        ("trunc", "implies(not force_into_project, result == trunc((secs(date) - secs(start_date)) / resolution))"),
        ("clamp", "implies(force_into_project, result == "
                  "ite(trunc((secs(date) - secs(start_date)) / resolution) < 0, 0, "
                  "ite(trunc((secs(date) - secs(start_date)) / resolution) >= size, size - 1, "
                  "trunc((secs(date) - secs(start_date)) / resolution))))"),
    ],
    calls={"_total_seconds": ("contract", CY + "::_total_seconds")},
    replay="scoreboard",
    probes={"start": "secs(start_date)", "end": "secs(start_date)", "res": "resolution", "size": "size", "date": "secs(date)", "force": "force_into_project"},
)

contract(
    CY + "::idx_to_date_fast", props=["C17", "C13"], cython=True,
    params={"idx": Int, "start_date": DT, "resolution": Int, "size": Int, "force_into_project": Bool,
            "end_date": DT}, ret=Opt(DT),
    requires=[("res", "resolution >= 1"), ("size", "size >= 1"),
              ("range", f"implies(not force_into_project or (0 <= idx and idx < size), "
                        f"-{I32} <= idx * resolution and idx * resolution <= {I32})")],
    ensures=[
        ("some", "result is not None"),
        ("clamp-lo", "implies(force_into_project and idx < 0, some(result) == start_date)"),
        ("clamp-hi", "implies(force_into_project and idx >= size, some(result) == end_date)"),
        ("linear", "implies(not force_into_project or (0 <= idx and idx < size), "
                   "secs(some(result)) == secs(start_date) + idx * resolution)"),
        ("usec", "implies(not force_into_project or (0 <= idx and idx < size), "
                 "isint((secs(some(result)) - secs(start_date)) * 1000000))"),
    ],
    replay="scoreboard",
    probes={"start": "secs(start_date)", "end": "secs(end_date)", "res": "resolution", "size": "size", "idx": "idx", "force": "force_into_project"},
)

# ---------------------------------------------------------------------------------------------
# Python side

contract(
    SB + "::Scoreboard.clear", props=["C17"],
    params={"self": Ref("Scoreboard"), "init_val": Slot},
    requires=[("size", "self.size >= 0")],
    ensures=[("len", "len(self.sb) == self.size"),
             ("frame", "self.size == old(self.size) and self.resolution == old(self.resolution) "
                       "and self.startDate == old(self.startDate) and self.endDate == old(self.endDate)")],
    modifies=["Scoreboard.sb@self"],
)

contract(
    SB + "::Scoreboard.__init__", props=["C17"],
    params={"self": Ref("Scoreboard"), "start": DT, "end": DT, "granularity": Int, "init_val": Slot},
    requires=[("res", "granularity >= 1"), ("order", "start <= end")],
    ensures=[
        ("size", "self.size == ceil_div_secs(secs(end) - secs(start), granularity) + 1"),
        ("covers-end", "secs(start) + (self.size - 1) * granularity >= secs(end)"),
        ("tight", "secs(start) + (self.size - 2) * granularity < secs(end) or self.size == 1"),
        ("table", "len(self.sb) == self.size"),
        ("fields", "self.startDate == start and self.endDate == end and self.resolution == granularity"),
    ],
    calls={"self.clear": ("contract", SB + "::Scoreboard.clear")},
    modifies=["Scoreboard.sb@self", "Scoreboard.startDate@self", "Scoreboard.endDate@self", "Scoreboard.resolution@self",
              "Scoreboard.size@self"],
    locals={"sb": List(Slot)},
    replay="scoreboard",
    probes={"start": "secs(start)", "end": "secs(end)", "res": "granularity", "gran": "granularity", "size": "1"},
)
ghost("ceil_div_secs", ["x", "g"], "0 - floor((0 - x) / g)")

_idx_requires = [("wf", "SBwf(self)")]
_idx_ensures = [
    ("linear", "implies(0 <= idx and idx < self.size, result == T(self, idx))"),
    ("usec", "implies(0 <= idx and idx < self.size, isint((secs(result) - secs(self.startDate)) * 1000000))"),
    ("clamp-lo", "implies(forceIntoProject and idx < 0, result == self.startDate)"),
    ("clamp-hi", "implies(forceIntoProject and idx >= self.size, result == self.endDate)"),
]
_idx_raises = {"IndexError": "not forceIntoProject and (idx < 0 or idx >= self.size)"}

contract(
    SB + "::Scoreboard.idxToDate", variant="py", props=["C17", "C13"],
    params={"self": Ref("Scoreboard"), "idx": Int, "forceIntoProject": Bool}, ret=DT,
    defaults={"forceIntoProject": False},
    consts={"_USE_CYTHON": False},
    requires=_idx_requires, ensures=_idx_ensures, raises=_idx_raises,
    replay="scoreboard", probes={"start": "secs(self.startDate)", "end": "secs(self.endDate)", "res": "self.resolution", "size": "self.size", "idx": "idx", "force": "forceIntoProject"},
)

contract(
    SB + "::Scoreboard.idxToDate", variant="cy", props=["C17", "C13"],
    params={"self": Ref("Scoreboard"), "idx": Int, "forceIntoProject": Bool}, ret=DT,
    defaults={"forceIntoProject": False},
    consts={"_USE_CYTHON": True},
    requires=_idx_requires + [
        ("c-int", f"-{I32} <= idx and idx <= {I32} and self.resolution <= {I32} and self.size <= {I32}"),
        ("c-horizon", f"self.size * self.resolution <= {I32}")],
    ensures=_idx_ensures, raises=_idx_raises,
    replay="scoreboard", probes={"start": "secs(self.startDate)", "end": "secs(self.endDate)", "res": "self.resolution", "size": "self.size", "idx": "idx", "force": "forceIntoProject"},
    calls={"idx_to_date_fast": ("contract", CY + "::idx_to_date_fast")},
    note="with the extension loaded an index outside the C int range raises OverflowError instead of IndexError; "
         "the contract is stated for 32-bit indices and horizons below 2^31 seconds",
)

_d2i_q = "((secs(date) - secs(self.startDate)) / self.resolution)"
_d2i_requires = [("wf", "SBwf(self)")]
_d2i_ensures = [
    # property: for instants of the window, time -> index is the floor-inverse of index -> time
    ("floor-inverse", f"implies(self.startDate <= date and floor({_d2i_q}) < self.size, "
                      "0 <= result and result < self.size and T(self, result) <= date and date < T(self, result + 1))"),
    ("clamp-hi", f"implies(forceIntoProject and floor({_d2i_q}) >= self.size, result == self.size - 1)"),
    ("clamp-lo", "implies(forceIntoProject and date < self.startDate, result == 0)"),
    ("in-range", "0 <= result and result < self.size"),
    # full functional form (makes the two configurations comparable): truncation, clamped when forced
    ("exact", f"result == ite(forceIntoProject, ite(trunc({_d2i_q}) < 0, 0, ite(trunc({_d2i_q}) >= self.size, self.size - 1, trunc({_d2i_q}))), trunc({_d2i_q}))"),
]
_d2i_raises = {"IndexError": f"not forceIntoProject and (trunc({_d2i_q}) < 0 or trunc({_d2i_q}) >= self.size)"}

contract(
    SB + "::Scoreboard.dateToIdx", variant="py", props=["C17", "C13"],
    params={"self": Ref("Scoreboard"), "date": DT, "forceIntoProject": Bool}, ret=Int,
    defaults={"forceIntoProject": True},
    consts={"_USE_CYTHON": False},
    requires=_d2i_requires, ensures=_d2i_ensures, raises=_d2i_raises,
    replay="scoreboard", probes={"start": "secs(self.startDate)", "end": "secs(self.endDate)", "res": "self.resolution", "size": "self.size", "date": "secs(date)", "force": "forceIntoProject"},
)

contract(
    SB + "::Scoreboard.dateToIdx", variant="cy", props=["C17", "C13"],
    params={"self": Ref("Scoreboard"), "date": DT, "forceIntoProject": Bool}, ret=Int,
    defaults={"forceIntoProject": True},
    consts={"_USE_CYTHON": True},
    requires=_d2i_requires + [
        ("usec", "isint((secs(date) - secs(self.startDate)) * 1000000)"),   # timedelta type invariant
        ("c-int", f"self.resolution <= {I32} and self.size <= {I32}"),
        ("c-range", f"-{I32} <= {_d2i_q} and {_d2i_q} <= {I32}")],
    ensures=_d2i_ensures, raises=_d2i_raises,
    replay="scoreboard", probes={"start": "secs(self.startDate)", "end": "secs(self.endDate)", "res": "self.resolution", "size": "self.size", "date": "secs(date)", "force": "forceIntoProject"},
    calls={"date_to_idx_fast": ("contract", CY + "::date_to_idx_fast")},
)

# ---------------------------------------------------------------------------------------------
# Lemmas over the contracts (client code verified modularly against the callee contracts)

for _v in ("py", "cy"):
    _extra = [("c-horizon", f"sb.size * sb.resolution <= {I32} and sb.resolution <= {I32} and sb.size <= {I32}")] if _v == "cy" else []
    contract(
        "lemma::idx_strictly_increasing", variant=_v, props=["C17"],
        client_src="def lemma(sb, i, j):\n    a = sb.idxToDate(i)\n    b = sb.idxToDate(j)\n    assert a < b\n",
        params={"sb": Ref("Scoreboard"), "i": Int, "j": Int},
        requires=[("wf", "SBwf(sb)"), ("ij", "0 <= i and i < j and j < sb.size")] + _extra,
        calls={"sb.idxToDate": ("contract", SB + "::Scoreboard.idxToDate#" + _v)},
        may_raise=[],
    )
    contract(
        "lemma::index_of_time_of_index", variant=_v, props=["C17"],
        client_src="def lemma(sb, i):\n    t = sb.idxToDate(i)\n    k = sb.dateToIdx(t, False)\n    assert k == i\n"
                   "    k2 = sb.dateToIdx(t)\n    assert k2 == i\n",
        params={"sb": Ref("Scoreboard"), "i": Int},
        requires=[("wf", "SBwf(sb)"), ("i", "0 <= i and i < sb.size")] + _extra,
        calls={"sb.idxToDate": ("contract", SB + "::Scoreboard.idxToDate#" + _v),
               "sb.dateToIdx": ("contract", SB + "::Scoreboard.dateToIdx#" + _v)},
    )

# ---------------------------------------------------------------------------------------------
# collectIntervals: run-length scan. Soundness of every reported interval is proved through the loop
# invariant + an assertion contract at the single `intervals.append` site; completeness ("every maximal run
# is reported") is the bounded stand-in (see bounded/c17_scan.py).

P = "app(predicate, self.sb[{j}])"
_scan_inv = [
    ("idx-range", "startIdx <= idx and startIdx >= 0"),
    ("duration", "duration >= 0 and duration <= idx - startIdx"),
    ("sentinel", "implies(duration == 0, start == 0)"),
    ("run-start", "implies(duration > 0, start == idx - duration)"),
    ("run", "implies(duration > 0, forall(j, idx - duration, idx, " + P.format(j="j") + "))"),
    ("left-maximal", "implies(duration > 0 and idx - duration > startIdx, not " + P.format(j="idx - duration - 1") + ")"),
    ("gap", "implies(duration == 0 and idx > startIdx and idx <= endIdx, not " + P.format(j="idx - 1") + ")"),
]
_scan_site = [
    # taken from the property: a reported interval is a maximal run of the requested minimum length,
    # clipped to the query window [sIdx, eIdx]
    ("is-run", "forall(j, start, current_idx, " + P.format(j="j") + ")"),
    ("min-length", "idx - (idx - duration) >= minDurationSlots"),
    ("clip-start", "start == ite(idx - duration < sIdx, sIdx, idx - duration)"),
    ("clip-end", "current_idx == ite(idx > eIdx, eIdx, idx)"),
    ("right-maximal", "idx >= endIdx or not " + P.format(j="idx")),
    ("non-empty", "start < current_idx"),
]
# completeness (taken from the property: *exactly* the maximal runs): every maximal run [a, e) of the scanned
# window whose length reaches the minimum and whose clip to [sIdx, eIdx] is non-empty is an element of the list
Q = "(app(predicate, self.sb[{j}]) and {j} < endIdx)"
_maxrun = ("(forall(j, a, e, " + Q.format(j="j") + ") and (a == startIdx or not " + Q.format(j="a - 1") + ") and not "
           + Q.format(j="e") + ")")
_qual = "(e - a >= minDurationSlots and ite(a < sIdx, sIdx, a) < ite(e > eIdx, eIdx, e))"
_found = ("exists(k, 0, len({L}), {L}[k].start == T(self, ite(a < sIdx, sIdx, a)) and "
          "{L}[k].end == T(self, ite(e > eIdx, eIdx, e)))")
_complete = ("forall(e, startIdx + 1, {hi}, forall(a, startIdx, e, implies(" + _maxrun + " and " + _qual + ", " + _found + ")))")
# order: the list is in table order, its elements are non-empty and pairwise disjoint (so no run is reported twice)
_ordered = ("forall(k, 0, len({L}), secs({L}[k].start) < secs({L}[k].end)) and "
            "forall(k, 0, len({L}) - 1, secs({L}[k].end) <= secs({L}[k + 1].start))")
_behind = "forall(k, 0, len(intervals), secs(intervals[k].end) <= secs(T(self, idx - duration)))"
# the same statement over the parameters only (postcondition): window, minimum and scan range as the property reads
ghost("DIq", ["sb", "d"], "trunc((secs(d) - secs(sb.startDate)) / sb.resolution)")
ghost("DI", ["sb", "d"], "ite(DIq(sb, d) < 0, 0, ite(DIq(sb, d) >= sb.size, sb.size - 1, DIq(sb, d)))")
ghost("MS", ["sb", "m"], "ite(trunc(m / sb.resolution) <= 0, 1, trunc(m / sb.resolution))")
ghost("LO", ["sb", "iv", "m"], "ite(DI(sb, iv.start) - MS(sb, m) < 0, 0, DI(sb, iv.start) - MS(sb, m))")
ghost("HI", ["sb", "iv", "m"], "ite(DI(sb, iv.end) + MS(sb, m) > sb.size - 1, sb.size - 1, DI(sb, iv.end) + MS(sb, m))")
_post_names = {"startIdx": "LO(self, iv, minDuration)", "endIdx": "HI(self, iv, minDuration)",
               "sIdx": "DI(self, iv.start)", "eIdx": "DI(self, iv.end)", "minDurationSlots": "MS(self, minDuration)"}


def _over_params(src):
    import re
    return re.sub(r"\b(startIdx|endIdx|sIdx|eIdx|minDurationSlots)\b", lambda m: _post_names[m.group(1)], src)


# ... and over the whole table (lemma scan_reports_every_table_run below): the maximal runs of the *table* (its final
# padding slot never counts: it starts at or after the end date), not only of the scanned part of it
QT = "(app(predicate, self.sb[{j}]) and {j} < self.size - 1)"
_maxrun_t = ("(forall(j, a, e, " + QT.format(j="j") + ") and (a == 0 or not " + QT.format(j="a - 1") + ") and not "
             + QT.format(j="e") + ")")


def _at(src, a, e, obj="sb"):
    """clause template at explicit run bounds (a, e) -- the universal instance a proof step names"""
    import re
    src = re.sub(r"\ba\b", "(" + a + ")", src)
    src = re.sub(r"\be\b", "(" + e + ")", src)
    return src.replace("self", obj)


_scan_params = {"self": Ref("Scoreboard"), "iv": Ref("TimeInterval"), "minDuration": Real,
                "predicate": Fn([Slot], Bool)}
_scan_locals = {"intervals": List(Ref("TimeInterval")), "val": Slot}

contract(
    SB + "::Scoreboard.collectIntervals", variant="py", props=["C17", "C13"],
    params=_scan_params, ret=List(Ref("TimeInterval")),
    consts={"_USE_CYTHON": False},
    requires=[("wf", "SBwf(self)"), ("min", "minDuration >= 0")],
    ensures=[("complete", _over_params(_complete.format(hi="endIdx + 1", L="result"))),
             ("ordered", _ordered.format(L="result"))],
    calls={
        "self.dateToIdx": ("contract", SB + "::Scoreboard.dateToIdx#py"),
        "self.idxToDate": ("contract", SB + "::Scoreboard.idxToDate#py"),
        "TimeInterval": ("new", "TimeInterval", ["start", "end"]),
        "intervals.append": ("check", _scan_site, None),
    },
    loops={0: {"inv": _scan_inv + [("complete", _complete.format(hi="idx", L="intervals")),
                                   ("ordered", _ordered.format(L="intervals")), ("behind", _behind)],
               "decreases": "endIdx + 1 - idx"}},
    locals=_scan_locals,
)

_cy_names = {"startIdx": "start_idx", "endIdx": "end_idx", "sIdx": "s_idx", "eIdx": "e_idx",
             "minDurationSlots": "min_duration_slots"}


def _cy(src):
    import re
    src = re.sub(r"\b(startIdx|endIdx|sIdx|eIdx|minDurationSlots)\b", lambda m: _cy_names[m.group(1)], src)
    src = src.replace("self.sb[", "sb[").replace("T(self, ", "TC(start_date, resolution, ")
    return src


ghost("TC", ["s", "r", "i"], "dt(secs(s) + i * r)")

contract(
    CY + "::collect_intervals_fast", props=["C17", "C13"], cython=True,
    params={"sb": List(Slot), "start_idx": Int, "end_idx": Int, "s_idx": Int, "e_idx": Int,
            "min_duration_slots": Int, "size": Int, "start_date": DT, "resolution": Int,
            "predicate": Fn([Slot], Bool), "interval_class": Ref("type")},
    ret=List(Ref("TimeInterval")),
    requires=[("start", "start_idx >= 0"), ("res", "resolution >= 1"), ("size", "size >= 1 and len(sb) == size"),
              ("end", "end_idx <= size - 1"), ("window", "0 <= s_idx and e_idx <= size - 1"),
              ("c-horizon", f"size * resolution <= {I32}")],
    ensures=[("complete", _cy(_complete.format(hi="endIdx + 1", L="result"))),
             ("ordered", _ordered.format(L="result"))],
    calls={"interval_class": ("new", "TimeInterval", ["start", "end"]),
           "intervals.append": ("check", [
               ("is-run", "forall(j, start, current_idx, app(predicate, sb[j]))"),
               ("min-length", "duration >= min_duration_slots"),
               ("clip-start", "start == ite(idx - duration < s_idx, s_idx, idx - duration)"),
               ("clip-end", "current_idx == ite(idx > e_idx, e_idx, idx)"),
               ("right-maximal", "idx >= end_idx or not app(predicate, sb[idx])"),
               ("non-empty", "start < current_idx"),
               ("start-time", "secs(start_dt) == secs(start_date) + start * resolution"),
               ("end-time", "secs(end_dt) == secs(start_date) + current_idx * resolution"),
           ], None)},
    loops={0: {"inv": [
        ("idx-range", "start_idx <= idx and start_idx >= 0"),
        ("duration", "duration >= 0 and duration <= idx - start_idx"),
        ("sentinel", "implies(duration == 0, start == 0)"),
        ("run-start", "implies(duration > 0, start == idx - duration)"),
        ("run", "implies(duration > 0, forall(j, idx - duration, idx, app(predicate, sb[j])))"),
        ("left-maximal", "implies(duration > 0 and idx - duration > start_idx, not app(predicate, sb[idx - duration - 1]))"),
        ("gap", "implies(duration == 0 and idx > start_idx and idx <= end_idx, not app(predicate, sb[idx - 1]))"),
        ("complete", _cy(_complete.format(hi="idx", L="intervals"))),
        ("ordered", _ordered.format(L="intervals")), ("behind", _cy(_behind)),
    ], "decreases": "end_idx + 1 - idx"}},
    locals={"intervals": List(Ref("TimeInterval")), "val": Slot},
)

contract(
    SB + "::Scoreboard.collectIntervals", variant="cy", props=["C17", "C13"],
    params=_scan_params, ret=List(Ref("TimeInterval")),
    consts={"_USE_CYTHON": True, "TimeInterval": classref("TimeInterval")},
    requires=[("wf", "SBwf(self)"), ("min", "minDuration >= 0"),
              ("c-horizon", f"self.size * self.resolution <= {I32} and self.resolution <= {I32} and self.size <= {I32}"),
              ("c-min", f"minDuration / self.resolution <= {I32}"),
              ("usec", "isint((secs(iv.start) - secs(self.startDate)) * 1000000) and "
                       "isint((secs(iv.end) - secs(self.startDate)) * 1000000)"),
              ("c-range", f"-{I32} <= (secs(iv.start) - secs(self.startDate)) / self.resolution and "
                          f"(secs(iv.start) - secs(self.startDate)) / self.resolution <= {I32} and "
                          f"-{I32} <= (secs(iv.end) - secs(self.startDate)) / self.resolution and "
                          f"(secs(iv.end) - secs(self.startDate)) / self.resolution <= {I32}")],
    ensures=[("complete", _over_params(_complete.format(hi="endIdx + 1", L="result"))),
             ("ordered", _ordered.format(L="result"))],
    calls={
        "self.dateToIdx": ("contract", SB + "::Scoreboard.dateToIdx#cy"),
        "collect_intervals_fast": ("contract", CY + "::collect_intervals_fast"),
    },
    locals=_scan_locals,
)


# ---------------------------------------------------------------------------------------------
# Lemma over the contract of collectIntervals (both configurations): *every* maximal run [a, e) of the table that
# reaches the minimum length and meets the query window is in the returned list, clipped to the window. a and e are
# parameters, i.e. arbitrary. The proof names the instance of the callee's `complete` clause: the run cut to the
# scanned range [LO, HI] (three ghost assertions before the return: it is a maximal run of the scanned range, it
# still qualifies, hence it is in the list), and the clip of the cut run is the clip of the run.
_A2 = "ite(a > LO(sb, iv, minDuration), a, LO(sb, iv, minDuration))"
_E2 = "ite(e < HI(sb, iv, minDuration), e, HI(sb, iv, minDuration))"
for _v in ("py", "cy"):
    _extra = ([("c-horizon", f"sb.size * sb.resolution <= {I32} and sb.resolution <= {I32} and sb.size <= {I32}"),
               ("c-min", f"minDuration / sb.resolution <= {I32}"),
               ("usec", "isint((secs(iv.start) - secs(sb.startDate)) * 1000000) and "
                        "isint((secs(iv.end) - secs(sb.startDate)) * 1000000)"),
               ("c-range", f"-{I32} <= (secs(iv.start) - secs(sb.startDate)) / sb.resolution and "
                           f"(secs(iv.start) - secs(sb.startDate)) / sb.resolution <= {I32} and "
                           f"-{I32} <= (secs(iv.end) - secs(sb.startDate)) / sb.resolution and "
                           f"(secs(iv.end) - secs(sb.startDate)) / sb.resolution <= {I32}")] if _v == "cy" else [])
    contract(
        "lemma::scan_reports_every_table_run", variant=_v, props=["C17", "C13"],
        client_src="def lemma(sb, iv, minDuration, predicate, a, e):\n"
                   "    r = sb.collectIntervals(iv, minDuration, predicate)\n"
                   "    return r\n",
        params={"sb": Ref("Scoreboard"), "iv": Ref("TimeInterval"), "minDuration": Real,
                "predicate": Fn([Slot], Bool), "a": Int, "e": Int},
        ret=List(Ref("TimeInterval")),
        requires=[("wf", "SBwf(sb)"), ("min", "minDuration >= 0"), ("ae", "0 <= a and a < e and e < sb.size"),
                  ("table-run", _at(_maxrun_t, "a", "e")),
                  ("qualifies", _at(_over_params(_qual), "a", "e"))] + _extra,
        ensures=[("reported", _at(_over_params(_found.format(L="result")), "a", "e"))],
        cuts={"return r": [
            ("scan-run", _at(_over_params(_maxrun), _A2, _E2)),
            ("scan-qualifies", _at(_over_params(_qual), _A2, _E2)),
            ("scan-reported", _at(_over_params(_found.format(L="r")), _A2, _E2)),
        ]},
        calls={"sb.collectIntervals": ("contract", SB + "::Scoreboard.collectIntervals#" + _v)},
        may_raise=[],
    )
