"""C01 / C02 / C03 / C05 kernels on the resource side.

  scriptplan/core/resource_scenario.py :: getAvailableSecondsInSlot, onShift, available, book,
                                           markSlotPartiallyUsed, releasePartialSlot
"""
from contracts.model import *  # noqa
import contracts.c05_limits  # noqa  (Limits contracts / ghost functions)
import contracts.c02_calendar  # noqa

RS = "scriptplan/core/resource_scenario.py"
LM = "scriptplan/core/limits.py"

ghost("ResLeaves", ["rs"], "attr(rs.property, 'leaves', rs.scenarioIdx)")
ghost("OnShiftSpec", ["rs", "i"],
      "not InLeaveList(rs.project.attributes['vacations'], PT(rs.project, i)) and "
      "not (ResLeaves(rs) is not None and InLeaveList(some(ResLeaves(rs)), PT(rs.project, i))) and "
      "ite(attr(rs.property, 'shifts', rs.scenarioIdx) is not None and attr(some(attr(rs.property, 'shifts', rs.scenarioIdx)), 'workinghours', rs.scenarioIdx) is not None, "
      "WHOn(some(attr(some(attr(rs.property, 'shifts', rs.scenarioIdx)), 'workinghours', rs.scenarioIdx)), i, attr(rs.property, 'timezone', rs.scenarioIdx)), "
      "ite(attr(rs.property, 'workinghours', rs.scenarioIdx) is not None, "
      "WHOn(some(attr(rs.property, 'workinghours', rs.scenarioIdx)), i, attr(rs.property, 'timezone', rs.scenarioIdx)), "
      "IsWT(rs.project, i)))", opaque=Bool)

contract(
    RS + "::ResourceScenario.onShift", props=["C02", "C14"], reveal=["OnShiftSpec"],
    params={"self": Ref("ResourceScenario"), "sb_idx": Int}, ret=Bool,
    requires=[("g", "PG(self.project) >= 1"), ("start", "self.project.attributes['start'] is not None"),
              ("idx", "implies(self.project.scoreboard is not None, 0 <= sb_idx and sb_idx < len(some(self.project.scoreboard).sb))")],
    ensures=[
        ("exact", "result == OnShiftSpec(self, sb_idx)"),
        # C02: never on shift inside a global vacation or a leave of the resource (at the slot start)
        ("no-vacation", "implies(result, not InLeaveList(self.project.attributes['vacations'], PT(self.project, sb_idx)))"),
        ("no-leave", "implies(result and ResLeaves(self) is not None, not InLeaveList(some(ResLeaves(self)), PT(self.project, sb_idx)))"),
    ],
    calls={
        "self.project.idxToDate": ("spec", ["self", "i"], "ite(self.attributes['start'] is None, None, PT(self, i))"),
        "self.project.isWorkingTime": ("spec", ["self", "i"], "IsWT(self, i)"),
        "shift_wh.onShift": ("spec", ["self", "i", "timezone"], "WHOn(self, i, timezone)"),
        "workinghours.onShift": ("spec", ["self", "i", "timezone"], "WHOn(self, i, timezone)"),
    },
    static={"hasattr(vac, 'interval')": True, "hasattr(leave, 'interval')": True,
            "hasattr(shift_wh, 'onShift')": True, "hasattr(workinghours, 'onShift')": True},
    opaque_calendar=True,
    note="WorkingHours.onShift and Project.isWorkingTime are used in the functional form proved as their `exact` clauses",
)

# ---- ledger -----------------------------------------------------------------------------------------------------

contract(
    RS + "::ResourceScenario.getAvailableSecondsInSlot", props=["C01", "C03"],
    params={"self": Ref("ResourceScenario"), "sb_idx": Int}, ret=Real,
    requires=[("g", "D(self) >= 1")],
    ensures=[("remaining", "result == ite(D(self) - used(self, sb_idx) > 0, D(self) - used(self, sb_idx), 0)"),
             ("bounds", "implies(0 <= used(self, sb_idx), 0 <= result and result <= D(self))")],
)

contract(
    RS + "::ResourceScenario.markSlotPartiallyUsed", props=["C01"],
    params={"self": Ref("ResourceScenario"), "sb_idx": Int, "seconds_used": Real},
    requires=[("room", "0 <= seconds_used and used(self, sb_idx) + seconds_used <= D(self)"), ("ledger", "Ledger(self)")],
    ensures=[("ledger", "Ledger(self)"),
             ("frame", "forall(s, implies(s != sb_idx, used(self, s) == old(used(self, s)) and usage(self, s) == old(usage(self, s))))")],
    modifies=["$obj:self.slotSecondsUsed"],
    note="no caller in the repository today; kept under contract because it writes the ledger",
)

contract(
    RS + "::ResourceScenario.releasePartialSlot", props=["C01"],
    params={"self": Ref("ResourceScenario"), "sb_idx": Int, "seconds_to_release": Real},
    requires=[("ledger", "Ledger(self)"), ("amount", "0 <= seconds_to_release"),
              ("keeps-usage", "ite(sb_idx in self.slotSecondsUsed, used(self, sb_idx), D(self)) - seconds_to_release >= usage(self, sb_idx)"),
              ("idx", "implies(self.scoreboard is not None, 0 <= sb_idx and sb_idx < len(some(self.scoreboard).sb))")],
    ensures=[("ledger", "Ledger(self)"),
             ("frame", "forall(s, implies(s != sb_idx, used(self, s) == old(used(self, s)) and usage(self, s) == old(usage(self, s))))")],
    modifies=["$obj:self.slotSecondsUsed", "$obj:some(self.scoreboard).sb"],
    note="no caller in the repository today; kept under contract because it writes the ledger",
)

# ---- ancestors of a tree node: anc(x, 0) = x.parent, anc(x, k+1) = anc(x, k).parent, None beyond the root --------
def anc_axioms(x):
    return [
        f"anc({x}, 0) == {x}.parent",
        f"forall(k, implies(k >= 0, ite(anc({x}, k) is None, anc({x}, k + 1) is None, anc({x}, k + 1) == some(anc({x}, k)).parent)))",
        f"forall(k, forall(j, implies(0 <= k and k <= j and anc({x}, k) is None, anc({x}, j) is None)))",
    ]


ghost("OwnLimits", ["r", "sc"], "attr(r, 'limits', sc)")
# a resource node's own limits admit a booking of slot i
ghost("NodeLimOk", ["r", "sc", "i"],
      "implies(OwnLimits(r, sc) is not None and len(some(OwnLimits(r, sc))._limits) > 0, LimitsOkSpec(some(OwnLimits(r, sc)), i, True, None))")
ghost("NodeLimWf", ["r", "sc"], "implies(OwnLimits(r, sc) is not None, LimitsWf(some(OwnLimits(r, sc))))")
ghost("AncLimWf", ["x", "sc"], "forall(j, implies(j >= 0 and anc(x, j) is not None, NodeLimWf(some(anc(x, j)), sc)))")

_avail_requires = [
    ("g", "D(self) >= 1 and PG(self.project) >= 1"), ("start", "self.project.attributes['start'] is not None"),
    ("idx", "implies(self.scoreboard is not None, 0 <= sb_idx and sb_idx < len(some(self.scoreboard).sb))"),
    ("pidx", "implies(self.project.scoreboard is not None, 0 <= sb_idx and sb_idx < len(some(self.project.scoreboard).sb))"),
    ("limits-wf", "NodeLimWf(self.property, self.scenarioIdx) and AncLimWf(self.property, self.scenarioIdx)"),
]

contract(
    RS + "::ResourceScenario.available", props=["C01", "C02", "C05", "C10"],
    params={"self": Ref("ResourceScenario"), "sb_idx": Int}, ret=Bool,
    requires=_avail_requires,
    assumes=anc_axioms("self.property"),
    ensures=[
        ("has-board", "implies(result, self.scoreboard is not None)"),
        # C02: only slots the resource is on shift for
        ("on-shift", "implies(result, OnShiftSpec(self, sb_idx))"),
        # C01: only slots with room left
        ("room", "implies(result, used(self, sb_idx) < D(self))"),
        # a slot whose marker shows a booking is only offered again when part of it was released
        ("marker", "implies(result, some(self.scoreboard).sb[sb_idx] is None or D(self) - used(self, sb_idx) < D(self))"),
        # C05: own limits and those of every enclosing resource group admit the booking
        ("own-limits", "implies(result, NodeLimOk(self.property, self.scenarioIdx, sb_idx))"),
        ("group-limits", "implies(result, forall(j, implies(j >= 0 and anc(self.property, j) is not None, "
                         "NodeLimOk(some(anc(self.property, j)), self.scenarioIdx, sb_idx))))"),
    ],
    calls={
        "self.onShift": ("contract", RS + "::ResourceScenario.onShift"),
        "self.getAvailableSecondsInSlot": ("contract", RS + "::ResourceScenario.getAvailableSecondsInSlot"),
        "limits.ok": ("contract", LM + "::Limits.ok"),
        "parent_limits.ok": ("contract", LM + "::Limits.ok"),
    },
    static={"hasattr(limits, 'ok')": True, "hasattr(parent_limits, 'ok')": True},
    loops={0: {"inv": [
        ("cursor", "parent == anc(self.property, _k)"),
        ("checked", "forall(j, 0, _k, implies(anc(self.property, j) is not None, "
                    "NodeLimOk(some(anc(self.property, j)), self.scenarioIdx, sb_idx)))"),
    ], "locals": {"parent": Opt(Ref("Resource")), "parent_limits": Opt(Ref("Limits"))}}},
    locals={"parent": Opt(Ref("Resource"))},
)

TS = "scriptplan/core/task_scenario.py"
# what a booking may write: this resource's ledger and bookkeeping, its scoreboard marker, the duties list,
# and limit counters (any limit: own, groups', the task's and its ancestors')
BOOK_MODIFIES = ["$obj:self.slotSecondsUsed", "$obj:self.slotTaskUsage", "$obj:ite(sb_idx in self.slotTaskUsage, self.slotTaskUsage[sb_idx], None)",
                 "$obj:self.firstBookedSlots", "$obj:self.lastBookedSlots", "ResourceScenario._effort@self",
                 "ResourceScenario.firstBookedSlot@self", "ResourceScenario.lastBookedSlot@self",
                 "$obj:some(self.scoreboard).sb", "$region:@duties", "Limit._dirty", "$region:Limit._scoreboard"]

# every counter of a limits collection that applies to resource id `res` has one more booking in the period of
# slot i; nothing is uncounted
ghost("Counted", ["ls", "i", "res"],
      "forall(k, 0, len(ls._limits), implies((ls._limits[k].resource is None or ls._limits[k].resource == res) "
      "and uf_sbidx(ls._limits[k], i) >= 0, "
      "cntv(ls._limits[k], uf_sbidx(ls._limits[k], i)) == old(cntv(ls._limits[k], uf_sbidx(ls._limits[k], i))) + 1))")

contract(
    TS + "::TaskScenario.incLimits", props=["C05"], trusted=True,
    params={"self": Ref("TaskScenario"), "sbIdx": Int, "resource": Opt(Ref("Resource"))},
    defaults={"resource": None},
    requires=[],
    ensures=[("ledger-frame", "True")],
    modifies=["Limit._dirty", "$region:Limit._scoreboard"],
    note="frame only (writes limit counters, never the ledger); its counting clause is proved separately as "
         "TaskScenario.incLimits in c03_task.py -- declared here to break the module cycle",
)

contract(
    RS + "::ResourceScenario.book", props=["C01", "C02", "C03", "C05", "C10"],
    params={"self": Ref("ResourceScenario"), "sb_idx": Int, "task": Ref("Task"), "force": Bool}, ret=Real,
    defaults={"force": False},
    requires=_avail_requires + [
        ("not-forced", "not force"),
        ("ledger", "Ledger(self)"),
        ("entries", "EntriesFit(self)"),
        ("lists", "forall(s, forall(t, implies(s != t and s in self.slotTaskUsage and t in self.slotTaskUsage, "
                  "self.slotTaskUsage[s] != self.slotTaskUsage[t])))"),
        ("eff", "attr(self.property, 'efficiency', self.scenarioIdx) is None or some(attr(self.property, 'efficiency', self.scenarioIdx)) >= 0"),
        ("task-data", "task.data is not None and 0 <= self.scenarioIdx and self.scenarioIdx < len(some(task.data))"),
    ],
    assumes=anc_axioms("self.property"),
    ensures=[
        # C01: the ledger invariant is preserved; the slot is filled exactly, never over-filled
        ("ledger", "Ledger(self)"),
        ("entries", "EntriesFit(self)"),
        ("lists", "forall(s, forall(t, implies(s != t and s in self.slotTaskUsage and t in self.slotTaskUsage, "
                  "self.slotTaskUsage[s] != self.slotTaskUsage[t])))"),
        ("refused", "implies(result == 0 and old(used(self, sb_idx)) >= 0, forall(s, used(self, s) == old(used(self, s)) and usage(self, s) == old(usage(self, s))))"),
        ("filled", "implies(result > 0, used(self, sb_idx) == D(self) and "
                   "usage(self, sb_idx) == old(usage(self, sb_idx)) + (D(self) - old(used(self, sb_idx))))"),
        ("entry-exists", "implies(result > 0, sb_idx in self.slotTaskUsage and len(self.slotTaskUsage[sb_idx]) >= 1)"),
        ("entry-task", "implies(result > 0, self.slotTaskUsage[sb_idx][len(self.slotTaskUsage[sb_idx]) - 1][0] == task)"),
        ("entry-seconds", "implies(result > 0, self.slotTaskUsage[sb_idx][len(self.slotTaskUsage[sb_idx]) - 1][1] == D(self) - old(used(self, sb_idx)))"),
        ("frame", "forall(s, implies(s != sb_idx, used(self, s) == old(used(self, s)) and usage(self, s) == old(usage(self, s))))"),
        ("board-size", "self.scoreboard == old(self.scoreboard) and len(some(self.scoreboard).sb) == old(len(some(self.scoreboard).sb))"),
        # no other resource's ledger is touched
        ("others", "forall(o, 'Ref:ResourceScenario', implies(o != self and old(RSsep(o, self)), LedgerSame(o) and RSsep(o, self) and "
                   "implies(old(EntriesFit(o)), EntriesFit(o)) and implies(old(ListsDistinct(o)), ListsDistinct(o))))"),
        # C02: a booking happens only in a slot the resource is on shift for
        ("on-shift", "implies(result > 0, old(OnShiftSpec(self, sb_idx)))"),
        # C03: effort credited = seconds taken x efficiency
        ("credit-amount", "implies(result > 0, result == (D(self) - old(used(self, sb_idx))) / 3600 * "
                          "ite(attr(self.property, 'efficiency', self.scenarioIdx) is None or some(attr(self.property, 'efficiency', self.scenarioIdx)) == 0, 1, "
                          "some(attr(self.property, 'efficiency', self.scenarioIdx))))"),
        # C05: a booking happens only while the resource's own limits and every enclosing group's admit it
        ("was-within-limits", "implies(result > 0, old(NodeLimOk(self.property, self.scenarioIdx, sb_idx)) and "
                              "forall(j, implies(j >= 0 and anc(self.property, j) is not None, "
                              "old(NodeLimOk(some(anc(self.property, j)), self.scenarioIdx, sb_idx)))))"),
    ],
    calls={
        "self.available": ("contract", RS + "::ResourceScenario.available"),
        "self.getAvailableSecondsInSlot": ("contract", RS + "::ResourceScenario.getAvailableSecondsInSlot"),
        "self.initScoreboard": ("havoc", NoneT, ["ResourceScenario.scoreboard"]),
        "limits.inc": ("contract", LM + "::Limits.inc"),
        "parent_limits.inc": ("contract", LM + "::Limits.inc"),
        "task_scenario.incLimits": ("contract", TS + "::TaskScenario.incLimits"),
    },
    static={"hasattr(limits, 'inc')": True, "hasattr(parent_limits, 'inc')": True, "hasattr(task, 'data')": True,
            "hasattr(task_scenario, 'incLimits')": True},
    modifies=BOOK_MODIFIES,
    loops={0: {"inv": [("cursor", "parent == anc(self.property, _k)")],
               "locals": {"parent": Opt(Ref("Resource")), "parent_limits": Opt(Ref("Limits"))}}},
    locals={"parent": Opt(Ref("Resource"))},
)

# ---- "is this slot booked for a task": only Task entries count, marker words (leaves, off-shift) do not -----------------
contract(
    RS + "::ResourceScenario.booked", props=["C01", "C02"],
    params={"self": Ref("ResourceScenario"), "sb_idx": Int}, ret=Bool,
    requires=[("idx", "implies(self.scoreboard is not None, 0 <= sb_idx and sb_idx < len(some(self.scoreboard).sb))")],
    ensures=[("task-only", "result == (self.scoreboard is not None and some(self.scoreboard).sb[sb_idx] is not None and "
                           "some(some(self.scoreboard).sb[sb_idx]).is_task)")],
    modifies=[],
)
