"""C04 / C06 / C08 / C11 carriers through the task side of the scheduler.

  scriptplan/core/task_scenario.py :: getAllDependencies, _asapReadyForScheduling, schedule (forward bound)
"""
from contracts.model import *  # noqa
import contracts.c01_ledger as L  # noqa

TS = "scriptplan/core/task_scenario.py"

ghost("Deps", ["n", "sc"], "attr(n, 'depends', sc)")
ghost("NDeps", ["n", "sc"], "ite(Deps(n, sc) is None, 0, len(some(Deps(n, sc))))")

contract(
    TS + "::TaskScenario.getAllDependencies", props=["C04"],
    params={"self": Ref("TaskScenario")}, ret=List(Ref("Dep")),
    assumes=L.anc_axioms("self.property"),
    ensures=[
        # the task's own dependencies and those of every enclosing container are all in the result
        ("own", "forall(k, 0, NDeps(self.property, self.scenarioIdx), exists(m, 0, len(result), "
                "result[m] == some(Deps(self.property, self.scenarioIdx))[k]))"),
        ("inherited", "forall(j, implies(j >= 0 and anc(self.property, j) is not None, "
                      "forall(k, 0, NDeps(some(anc(self.property, j)), self.scenarioIdx), exists(m, 0, len(result), "
                      "result[m] == some(Deps(some(anc(self.property, j)), self.scenarioIdx))[k]))))"),
    ],
    loops={0: {"inv": [
        ("cursor", "parent == anc(self.property, _k)"),
        ("own", "forall(k, 0, NDeps(self.property, self.scenarioIdx), exists(m, 0, len(all_deps), "
                "all_deps[m] == some(Deps(self.property, self.scenarioIdx))[k]))"),
        ("inherited", "forall(j, 0, _k, implies(anc(self.property, j) is not None, "
                      "forall(k, 0, NDeps(some(anc(self.property, j)), self.scenarioIdx), exists(m, 0, len(all_deps), "
                      "all_deps[m] == some(Deps(some(anc(self.property, j)), self.scenarioIdx))[k]))))"),
    ], "locals": {"parent": Opt(Ref("Task")), "parent_deps": List(Ref("Dep"), region="@depends")}}},
    locals={"all_deps": local(List(Ref("Dep")), "all_deps"), "own_deps": List(Ref("Dep"), region="@depends"),
            "parent": Opt(Ref("Task"))},
)

PJ = "scriptplan/core/project.py"
RS = "scriptplan/core/resource_scenario.py"

# ---- working-time lookups used by the slot walk ------------------------------------------------------------------
contract(
    PJ + "::Project.isWorkingTime", props=["C02", "C11"], reveal=["IsWT"],
    params={"self": Ref("Project"), "sbIdx": Int}, ret=Bool,
    requires=[("g", "PG(self) >= 1"),
              # C11: the index is inside the table (a negative index would silently read from the end)
              ("idx", "implies(self.scoreboard is not None, 0 <= sbIdx and sbIdx < len(some(self.scoreboard).sb))")],
    ensures=[("exact", "result == IsWT(self, sbIdx)")],
    calls={"self.idxToDate": ("spec", ["self", "i"], "ite(self.attributes['start'] is None, None, PT(self, i))"),
           "self._isDefaultWorkingTime": ("spec", ["self", "d"], "ite(d is None, False, DefW(self, some(d)))")},
    note="_isDefaultWorkingTime is used in its functional form DefW, proved as Project._isDefaultWorkingTime/exact",
)

contract(
    PJ + "::Project._isDefaultWorkingTime", props=["C02", "C14"],
    params={"self": Ref("Project"), "date": Opt(DT)}, ret=Bool,
    ensures=[("exact", "result == ite(date is None, False, DefW(self, some(date)))")],
    static={"hasattr(vac, 'interval')": True, "hasattr(vac, 'contains')": False},
    opaque_calendar=True,
)

contract(
    TS + "::TaskScenario.isWorkingTime", props=["C11"],
    params={"self": Ref("TaskScenario"), "slotIdx": Int}, ret=Bool,
    requires=[("g", "PG(self.project) >= 1"),
              ("idx", "implies(self.project.scoreboard is not None, 0 <= slotIdx and slotIdx < len(some(self.project.scoreboard).sb))")],
    ensures=[("exact", "result == IsWT(self.project, slotIdx)")],
    calls={"self.project.isWorkingTime": ("contract", PJ + "::Project.isWorkingTime")},
)
