"""C04 / C06 / C08 / C11 carriers through the task side of the scheduler.

  scriptplan/core/task_scenario.py :: getAllDependencies, _asapReadyForScheduling, schedule (forward bound)
"""
from contracts.model import *  # noqa
import contracts.c01_ledger as L  # noqa

TS = "scriptplan/core/task_scenario.py"

ghost("Deps", ["n", "sc"], "attr(n, 'depends', sc)")
ghost("NDeps", ["n", "sc"], "ite(Deps(n, sc) is None, 0, len(some(Deps(n, sc))))")

contract(
    TS + "::TaskScenario.getAllDependencies", props=["C04"],
    params={"self": Ref("TaskScenario")}, ret=List(Ref("Dep")),
    assumes=L.anc_axioms("self.property"),
    ensures=[
        # the task's own dependencies and those of every enclosing container are all in the result
        ("own", "forall(k, 0, NDeps(self.property, self.scenarioIdx), exists(m, 0, len(result), "
                "result[m] == some(Deps(self.property, self.scenarioIdx))[k]))"),
        ("inherited", "forall(j, implies(j >= 0 and anc(self.property, j) is not None, "
                      "forall(k, 0, NDeps(some(anc(self.property, j)), self.scenarioIdx), exists(m, 0, len(result), "
                      "result[m] == some(Deps(some(anc(self.property, j)), self.scenarioIdx))[k]))))"),
    ],
    loops={0: {"inv": [
        ("cursor", "parent == anc(self.property, _k)"),
        ("own", "forall(k, 0, NDeps(self.property, self.scenarioIdx), exists(m, 0, len(all_deps), "
                "all_deps[m] == some(Deps(self.property, self.scenarioIdx))[k]))"),
        ("inherited", "forall(j, 0, _k, implies(anc(self.property, j) is not None, "
                      "forall(k, 0, NDeps(some(anc(self.property, j)), self.scenarioIdx), exists(m, 0, len(all_deps), "
                      "all_deps[m] == some(Deps(some(anc(self.property, j)), self.scenarioIdx))[k]))))"),
    ], "locals": {"parent": Opt(Ref("Task")), "parent_deps": List(Ref("Dep"), region="@depends")}}},
    # where the block appended by `extend` sits (gives the existential in `inherited` its witness without model search)
    cuts={"parent = parent.parent": [
        ("appended-block", "len(all_deps) >= len(parent_deps) and forall(k, 0, len(parent_deps), "
                           "all_deps[len(all_deps) - len(parent_deps) + k] == parent_deps[k])")]},
    locals={"all_deps": local(List(Ref("Dep")), "all_deps"), "own_deps": List(Ref("Dep"), region="@depends"),
            "parent": Opt(Ref("Task"))},
)

PJ = "scriptplan/core/project.py"
RS = "scriptplan/core/resource_scenario.py"

# ---- working-time lookups used by the slot walk ------------------------------------------------------------------
contract(
    PJ + "::Project.isWorkingTime", props=["C02", "C11"], reveal=["IsWT"],
    params={"self": Ref("Project"), "sbIdx": Int}, ret=Bool,
    requires=[("g", "PG(self) >= 1"),
              # C11: the index is inside the table (a negative index would silently read from the end)
              ("idx", "implies(self.scoreboard is not None, 0 <= sbIdx and sbIdx < len(some(self.scoreboard).sb))")],
    ensures=[("exact", "result == IsWT(self, sbIdx)")],
    calls={"self.idxToDate": ("spec", ["self", "i"], "ite(self.attributes['start'] is None, None, PT(self, i))"),
           "self._isDefaultWorkingTime": ("spec", ["self", "d"], "ite(d is None, False, DefW(self, some(d)))")},
    note="_isDefaultWorkingTime is used in its functional form DefW, proved as Project._isDefaultWorkingTime/exact",
)

contract(
    PJ + "::Project._isDefaultWorkingTime", props=["C02", "C14"],
    params={"self": Ref("Project"), "date": Opt(DT)}, ret=Bool,
    ensures=[("exact", "result == ite(date is None, False, DefW(self, some(date)))")],
    static={"hasattr(vac, 'interval')": True, "hasattr(vac, 'contains')": False},
    opaque_calendar=True,
)

contract(
    TS + "::TaskScenario.isWorkingTime", props=["C11"],
    params={"self": Ref("TaskScenario"), "slotIdx": Int}, ret=Bool,
    requires=[("g", "PG(self.project) >= 1"),
              ("idx", "implies(self.project.scoreboard is not None, 0 <= slotIdx and slotIdx < len(some(self.project.scoreboard).sb))")],
    ensures=[("exact", "result == IsWT(self.project, slotIdx)")],
    calls={"self.project.isWorkingTime": ("contract", PJ + "::Project.isWorkingTime")},
)

import contracts.c03_task as K  # noqa

# gap of a dependency item in seconds (gapduration only; gaplength is working time, handled by its own loop)
ghost("DepOn", ["d"], "ite(d.is_dict, d.onstart, False)")
ghost("DepTime", ["d", "sc"], "ite(DepOn(d), TStart(some(DepTask(d)), sc), TEnd(some(DepTask(d)), sc))")
ghost("GapLengthEdge", ["d"], "d.is_dict and not (d.gapduration is not None and some(d.gapduration) != '') and "
                              "d.gaplength is not None and some(d.gaplength) != ''")
ghost("DepGap", ["d"], "ite(d.is_dict and d.gapduration is not None and some(d.gapduration) != '', uf_dur(some(d.gapduration)) * 3600, 0)")

contract(
    TS + "::TaskScenario._computeMaxGapDelayedStart", props=["C04"],
    params={"self": Ref("TaskScenario"), "earliest_start": DT, "effort": Real}, ret=DT,
    ensures=[("never-earlier", "result >= earliest_start")],
    calls={"self._getSuccessorsWithMaxGap": ("pure", note_type(List(Tuple(Ref("Task"), Str, Opt(Str)), region="local:maxgap"))),
           "self._getSuccessorEarliestStart": ("pure", DT),
           "self._parse_duration": ("spec", ["self", "s"], "uf_dur(s)"),
           "self._computeStartFromEnd": ("pure", DT)},
    loops={0: {"inv": [("never-earlier", "delayed_start >= earliest_start")],
               "locals": {"delayed_start": DT, "successor_earliest": DT, "desired_end": DT, "required_start": DT,
                          "gap_hours": Real}}},
    locals={"delayed_start": DT},
    note="successor lookups and the backward estimate are treated as pure functions; only `result >= earliest_start` "
         "is claimed (maxgapduration deliberately delays a task)",
)

# ---- slot/time algebra of the project, as lemmas (proved here, assumed where PT / PIdx are hidden) -----------------
PT_LEMMAS = [
    "forall(i, forall(j, implies(i < j, secs(PT(self.project, j)) >= secs(PT(self.project, i)) + PG(self.project))))",
    "forall(d, 'DT', implies(d >= PStart(self.project), PT(self.project, PIdx(self.project, d)) <= d and "
    "secs(d) < secs(PT(self.project, PIdx(self.project, d))) + PG(self.project) and PIdx(self.project, d) >= 0))",
    "forall(d, 'DT', forall(e, 'DT', implies(d <= e, PIdx(self.project, d) <= PIdx(self.project, e))))",
    "secs(PT(self.project, 0)) == secs(PStart(self.project))",
    "PIdx(self.project, PStart(self.project)) == 0",
]
contract(
    "lemma::project_slot_algebra", props=["C04", "C06", "C08", "C11", "C17"],
    client_src="def lemma(self):\n    pass\n",
    params={"self": Ref("TaskScenario")},
    requires=[("g", "PG(self.project) >= 1 and self.project.attributes['start'] is not None")],
    ensures=[(f"L{i}", src) for i, src in enumerate(PT_LEMMAS)],
)

_AllDeps = "getdeps"   # bound below through a site check on the call of getAllDependencies

_sched_common_req = [
    ("not-scheduled", "not self.scheduled and self.currentSlotIdx is None and not Sched(self.property, self.scenarioIdx) "
                      "and not self.isRunAway"),
    ("project", "PG(self.project) >= 1 and self.project.attributes['start'] is not None and self.project.attributes['end'] is not None "
                "and PStart(self.project) <= some(self.project.attributes['end'])"),
    ("pboard", "implies(self.project.scoreboard is not None, Upper(self.project) < len(some(self.project.scoreboard).sb))"),
    ("world", "World(self)"),
    ("limits-wf", "ChainLimWf(self.property, self.scenarioIdx)"),
    ("data", "self.property.data is not None and self.scenarioIdx < len(some(self.property.data))"),
    K._ss_sel_distinct, K._ss_alloc_distinct,
    ("fresh", "self.doneEffort == 0 and self.slotStartOffset == 0"),
    ("no-duration", "attr(self.property, 'duration', self.scenarioIdx) is None or some(attr(self.property, 'duration', self.scenarioIdx)) == 0"),
    ("not-contiguous", "attr(self.property, 'flags', self.scenarioIdx) is None"),
    ("eff-positive", "forall(r, 'Ref:Resource', Eff(r, self.scenarioIdx) > 0)"),
    ("dur-nonneg", "forall(s, 'Str', uf_dur(s) >= 0)"),
]

contract(
    TS + "::TaskScenario.schedule", variant="asap-deps", props=["C04", "C06", "C07", "C08", "C11"],
    params={"self": Ref("TaskScenario")}, ret=Bool,
    requires=_sched_common_req + [
        ("forward", "attr(self.property, 'forward', self.scenarioIdx) is not None and some(attr(self.property, 'forward', self.scenarioIdx))"),
        # no date pinned on the task itself: no start at all, or one inherited from a dated container (a lower bound)
        ("no-own-start", "TStart(self.property, self.scenarioIdx) is None or "
                         "(uf_inherited(self.property, self.scenarioIdx) and some(TStart(self.property, self.scenarioIdx)) >= PStart(self.project))"),
        ("effort-task", "IsEffortTask(self) and EffortOf(self) > 1/1000000000 and attr(self.property, 'allocate', self.scenarioIdx) is not None and "
                        "len(some(attr(self.property, 'allocate', self.scenarioIdx))) > 0"),
        # predecessors are placed: their dates are in the horizon (readiness + C11 of the predecessors)
        ("deps-placed", "forall(d, 'Ref:Dep', implies(DepTask(d) is not None and DepTime(d, self.scenarioIdx) is not None, "
                        "some(DepTime(d, self.scenarioIdx)) >= PStart(self.project)))"),
    ],
    assumes=K.anc_axioms_all("Resource") + L.anc_axioms("self.property") + PT_LEMMAS,
    hide={"PT": (DT, [Ref("Project"), Int]), "PIdx": (Int, [Ref("Project"), DT])},
    ensures=[
        # C11: either placed inside the horizon, or reported as run-away -- never an exception
        ("total", "iff(result, Sched(self.property, self.scenarioIdx)) and implies(not result, self.isRunAway)"),
        # C04: the start respects every predecessor (own and inherited) plus its gap
        ("after-own-deps", "implies(result, TStart(self.property, self.scenarioIdx) is not None and "
                           "forall(k, 0, NDeps(self.property, self.scenarioIdx), "
                           "implies(DepTask(some(Deps(self.property, self.scenarioIdx))[k]) is not None and "
                           "some(DepTask(some(Deps(self.property, self.scenarioIdx))[k])) != self.property and "
                           "DepTime(some(Deps(self.property, self.scenarioIdx))[k], self.scenarioIdx) is not None, "
                           "secs(some(TStart(self.property, self.scenarioIdx))) >= "
                           "secs(some(DepTime(some(Deps(self.property, self.scenarioIdx))[k], self.scenarioIdx))) + "
                           "DepGap(some(Deps(self.property, self.scenarioIdx))[k]))))"),
        ("after-inherited-deps", "implies(result, forall(j, implies(j >= 0 and anc(self.property, j) is not None, "
                                 "forall(k, 0, NDeps(some(anc(self.property, j)), self.scenarioIdx), "
                                 "implies(DepTask(some(Deps(some(anc(self.property, j)), self.scenarioIdx))[k]) is not None and "
                                 "some(DepTask(some(Deps(some(anc(self.property, j)), self.scenarioIdx))[k])) != self.property and "
                                 "DepTime(some(Deps(some(anc(self.property, j)), self.scenarioIdx))[k], self.scenarioIdx) is not None, "
                                 "secs(some(TStart(self.property, self.scenarioIdx))) >= "
                                 "secs(some(DepTime(some(Deps(some(anc(self.property, j)), self.scenarioIdx))[k], self.scenarioIdx))) + "
                                 "DepGap(some(Deps(some(anc(self.property, j)), self.scenarioIdx))[k]))))))"),
        # C06/C11: dates inside the horizon, start before end
        ("in-horizon", "implies(result, TStart(self.property, self.scenarioIdx) is not None and TEnd(self.property, self.scenarioIdx) is not None and "
                       "some(TStart(self.property, self.scenarioIdx)) >= PStart(self.project))"),
        # C04: the start of a dated container is a lower bound for its children (and never an excuse to skip the edges above)
        ("not-before-container-start", "implies(result and old(TStart(self.property, self.scenarioIdx)) is not None, "
                                       "some(TStart(self.property, self.scenarioIdx)) >= some(old(TStart(self.property, self.scenarioIdx))))"),
    ],
    calls={
        "self.getAllDependencies": ("contract", TS + "::TaskScenario.getAllDependencies"),
        "self._parse_duration": ("spec", ["self", "s"], "uf_dur(s)"),
        "self._computeMaxGapDelayedStart": ("contract", TS + "::TaskScenario._computeMaxGapDelayedStart"),
        "self.project.dateToIdx": ("spec", ["self", "d"], "PIdx(self, d)"),
        "self.project.idxToDate": ("spec", ["self", "i"], "ite(self.attributes['start'] is None, None, PT(self, i))"),
        "self.isWorkingTime": ("contract", TS + "::TaskScenario.isWorkingTime"),
        "self.property.inherited": ("spec", ["self", "a", "sc"], "uf_inherited(self, sc)"),
        "round": ("pure", Real),      # round(x, 6): some real (only used to size the working-time gap; not needed for the bound)
        "self.scheduleSlot": ("contract", TS + "::TaskScenario.scheduleSlot"),
    },
    static={"hasattr(dep, 'task')": False},
    loops={
        # dependency loop (forward branch): the bound dominates every predecessor seen so far
        0: {"inv": [
            ("bound", "earliest_start >= PStart(self.project) and implies(TStart(self.property, self.scenarioIdx) is not None, "
                      "earliest_start >= some(TStart(self.property, self.scenarioIdx)))"),
            ("dominates", "forall(k, 0, _i, implies(DepTask(_iter[k]) is not None and DepTime(_iter[k], self.scenarioIdx) is not None, "
                          "secs(earliest_start) >= secs(some(DepTime(_iter[k], self.scenarioIdx))) + DepGap(_iter[k])))"),
            # C08: the bound is never later than necessary: it is the project start, the start inherited from a dated
            # container, or exactly some predecessor's date plus the gap duration of that edge (for a gaplength edge: the
            # date computed by the working-slot count) -- so the slot walk begins where the task may begin
            ("attained", "earliest_start == PStart(self.project) or "
                         "(TStart(self.property, self.scenarioIdx) is not None and earliest_start == some(TStart(self.property, self.scenarioIdx))) or "
                         "exists(k, 0, _i, DepTask(_iter[k]) is not None and DepTime(_iter[k], self.scenarioIdx) is not None and "
                         "(GapLengthEdge(_iter[k]) or "
                         "secs(earliest_start) == secs(some(DepTime(_iter[k], self.scenarioIdx))) + DepGap(_iter[k])))"),
        ], "locals": {"earliest_start": DT, "t": Opt(Ref("Task")), "gapduration": Opt(Str), "gaplength": Opt(Str),
                      "onstart": Bool, "dep_time": Opt(DT), "gap_hours": Real}},
        # the working-slot count of a gaplength edge: stays inside the working-time table, never moves backwards
        1: {"inv": [
            ("in-table", "dep_time_idx >= PIdx(self.project, some(dep_time)) and dep_time_idx >= 0 and "
                         "gap_limit == Upper(self.project) and working_slots >= 0"),
        ], "locals": {"dep_time_idx": Int, "working_slots": Int}},
        # the slot walk
        9: {"inv": [
            ("cursor", "TaskOk(self)"),
            ("world", "World(self)"),
            K._ss_sel_distinct,
            ("unfinished", "self.doneEffort >= 0 and self.doneEffort < EffortOf(self) - 1/1000000000"),
            # the intra-slot offset belongs to the slot that contains the dependency bound only (C08: it is not reserved
            # again in a later slot)
            ("not-before-bound", "some(self.currentSlotIdx) >= PIdx(self.project, earliest_start) and self.slotStartOffset >= 0 and "
                                 "self.slotStartOffset == ite(some(self.currentSlotIdx) == PIdx(self.project, earliest_start), "
                                 "secs(earliest_start) - secs(PT(self.project, PIdx(self.project, earliest_start))), 0)"),
            # C04: once a start is written it is not before the dependency bound
            ("start-ok", "ite(self.doneEffort == 0, TStart(self.property, self.scenarioIdx) == old(TStart(self.property, self.scenarioIdx)), "
                         "TStart(self.property, self.scenarioIdx) is not None and some(TStart(self.property, self.scenarioIdx)) >= earliest_start)"),
            ("container-bound", "implies(old(TStart(self.property, self.scenarioIdx)) is not None, "
                                "earliest_start >= some(old(TStart(self.property, self.scenarioIdx))))"),
            ("not-yet-scheduled", "not Sched(self.property, self.scenarioIdx) or True"),
        ], "decreases": "Upper(self.project) - some(self.currentSlotIdx)",
            "locals": {"first_booked_slot": Opt(Int), "previous_effort": Real}},
    },
    locals={"earliest_start": DT},
    modifies=K._SS_MOD + ["TaskScenario.currentSlotIdx@self", "TaskScenario.slotStartOffset@self", "TaskScenario.isRunAway@self",
                          "TaskScenario.scheduled@self", "@scheduled@self.property"],
)

# ---- backward (ALAP) scheduling: the deadline is derived from successors / on-start predecessors / project end -----
# successor edges of a task: (successor, gapduration of its dependency edge), an abstract function of the dependency lists
ghost("SuccList", ["ts"], None, opaque=note_type(List(Tuple(Ref("Task"), Opt(Str)), region="succlist")), types=[Ref("TaskScenario")],
      reads=["@depends"])
ghost("EdgeGap", ["e"], "ite(e[1] is None or some(e[1]) == '', 0, uf_dur(some(e[1])) * 3600)")

contract(
    TS + "::TaskScenario.schedule", variant="alap-derived", props=["C04", "C08", "C11"],
    params={"self": Ref("TaskScenario")}, ret=Bool,
    requires=_sched_common_req + [
        ("backward", "attr(self.property, 'forward', self.scenarioIdx) is not None and not some(attr(self.property, 'forward', self.scenarioIdx))"),
        ("no-own-end", "TEnd(self.property, self.scenarioIdx) is None and TStart(self.property, self.scenarioIdx) is None"),
        ("effort-task", "IsEffortTask(self) and EffortOf(self) > 1/1000000000 and attr(self.property, 'allocate', self.scenarioIdx) is not None and "
                        "len(some(attr(self.property, 'allocate', self.scenarioIdx))) > 0"),
        # successors are placed and the deadline they impose (their start minus the gap of the edge) is inside the horizon
        ("succ-placed", "forall(k, 0, len(SuccList(self)), SuccList(self)[k][0] != self.property and "
                        "implies(TStart(SuccList(self)[k][0], self.scenarioIdx) is not None, "
                        "secs(some(TStart(SuccList(self)[k][0], self.scenarioIdx))) - EdgeGap(SuccList(self)[k]) >= secs(PStart(self.project))))"),
        ("no-onstart-deps", "forall(d, 'Ref:Dep', implies(d.is_dict, not d.onstart))"),
    ],
    assumes=K.anc_axioms_all("Resource") + L.anc_axioms("self.property") + PT_LEMMAS,
    hide={"PT": (DT, [Ref("Project"), Int]), "PIdx": (Int, [Ref("Project"), DT])},
    ensures=[
        ("total", "iff(result, Sched(self.property, self.scenarioIdx)) and implies(not result, self.isRunAway)"),
        # C04/C08 (backward): the task ends no later than its deadline: the project end and the start of every
        # task that depends on it
        ("before-project-end", "implies(result, TEnd(self.property, self.scenarioIdx) is not None and "
                               "some(TEnd(self.property, self.scenarioIdx)) <= some(self.project.attributes['end']))"),
        # ... minus the gap duration that the successor's edge asks for
        ("before-successors", "implies(result, forall(k, 0, len(SuccList(self)), "
                              "implies(TStart(SuccList(self)[k][0], self.scenarioIdx) is not None, "
                              "secs(some(TEnd(self.property, self.scenarioIdx))) <= "
                              "secs(some(TStart(SuccList(self)[k][0], self.scenarioIdx))) - EdgeGap(SuccList(self)[k]))))"),
    ],
    calls={
        "self.getAllDependencies": ("contract", TS + "::TaskScenario.getAllDependencies"),
        "self._parse_duration": ("spec", ["self", "s"], "uf_dur(s)"),
        "self._getSuccessorEdges": ("spec", ["self"], "SuccList(self)"),
        "self._isResourceAvailable": ("pure", Bool),
        "self.project.dateToIdx": ("spec", ["self", "d"], "PIdx(self, d)"),
        "self.project.idxToDate": ("spec", ["self", "i"], "ite(self.attributes['start'] is None, None, PT(self, i))"),
        "self.isWorkingTime": ("contract", TS + "::TaskScenario.isWorkingTime"),
        "self.scheduleSlot": ("contract", TS + "::TaskScenario.scheduleSlot"),
    },
    static={"hasattr(dep, 'task')": False},
    loops={
        2: {"inv": [("bound", "latest_end <= some(self.project.attributes['end']) and latest_end >= PStart(self.project)")],
            "locals": {"latest_end": DT, "onstart": Bool, "pred": Opt(Ref("Task")), "gapduration": Opt(Str),
                       "pred_start": Opt(DT), "gap_hours": Real}},
        3: {"inv": [("bound", "latest_end <= some(self.project.attributes['end']) and latest_end >= PStart(self.project)"),
                    ("dominated", "forall(k, 0, _i, implies(TStart(_iter[k][0], self.scenarioIdx) is not None, "
                                  "secs(latest_end) <= secs(some(TStart(_iter[k][0], self.scenarioIdx))) - EdgeGap(_iter[k])))")],
            "locals": {"latest_end": DT, "succ_start": Opt(DT), "succ_gap": Opt(Str)}},
        4: {"inv": [("cursor", "self.currentSlotIdx is not None and some(self.currentSlotIdx) >= lowerLimit - 1 and "
                               "some(self.currentSlotIdx) <= PIdx(self.project, end_date) - 1 and lowerLimit == 0")],
            "decreases": "some(self.currentSlotIdx)"},
        5: {"inv": [("cursor", "self.currentSlotIdx is not None and some(self.currentSlotIdx) >= lowerLimit - 1 and "
                               "some(self.currentSlotIdx) <= PIdx(self.project, end_date) - 1 and lowerLimit == 0")]},
        9: {"inv": [
            ("cursor", "TaskOk(self)"),
            ("world", "World(self)"),
            K._ss_sel_distinct,
            ("unfinished", "self.doneEffort >= 0 and self.doneEffort < EffortOf(self) - 1/1000000000"),
            ("not-after-deadline", "some(self.currentSlotIdx) <= start_slot_idx and start_slot_idx <= PIdx(self.project, end_date) - 1 "
                                   "and implies(first_booked_slot is not None, some(first_booked_slot) <= start_slot_idx)"),
            ("end-untouched", "TEnd(self.property, self.scenarioIdx) is None"),
        ], "decreases": "some(self.currentSlotIdx)",
            "locals": {"first_booked_slot": Opt(Int), "previous_effort": Real}},
    },
    locals={"latest_end": DT, "end_date": Opt(DT)},
    modifies=K._SS_MOD + ["TaskScenario.currentSlotIdx@self", "TaskScenario.slotStartOffset@self", "TaskScenario.isRunAway@self",
                          "TaskScenario.scheduled@self", "@scheduled@self.property"],
)

# ---- readiness (forward): a task is taken only when every predecessor - own or inherited - has been placed ---------------
_SCHED_DEP = "implies(DepTask({d}) is not None, Sched(some(DepTask({d})), self.scenarioIdx))"
contract(
    TS + "::TaskScenario._asapReadyForScheduling", props=["C04", "C07"],
    params={"self": Ref("TaskScenario")}, ret=Bool,
    assumes=L.anc_axioms("self.property"),
    ensures=[
        ("own-placed", "implies(result, forall(k, 0, NDeps(self.property, self.scenarioIdx), "
                       + _SCHED_DEP.format(d="some(Deps(self.property, self.scenarioIdx))[k]") + "))"),
        ("inherited-placed", "implies(result, forall(j, implies(j >= 0 and anc(self.property, j) is not None, "
                             "forall(k, 0, NDeps(some(anc(self.property, j)), self.scenarioIdx), "
                             + _SCHED_DEP.format(d="some(Deps(some(anc(self.property, j)), self.scenarioIdx))[k]") + "))))"),
    ],
    calls={"self.getAllDependencies": ("contract", TS + "::TaskScenario.getAllDependencies")},
    static={"hasattr(dep, 'task')": False},
    loops={0: {"inv": [("seen", "forall(k, 0, _i, " + _SCHED_DEP.format(d="_iter[k]") + ")")],
               "locals": {"t": Opt(Ref("Task"))}}},
    modifies=[],
)

# ---- size of the project's working-time table ------------------------------------------------------------------------------
contract(
    PJ + "::Project.scoreboardSize", props=["C11", "C17"],
    params={"self": Ref("Project")}, ret=Int,
    requires=[("g", "PG(self) >= 1")],
    ensures=[
        ("board", "implies(self.scoreboard is not None and some(self.scoreboard).size != 0, result == some(self.scoreboard).size)"),
        ("computed", "implies(self.scoreboard is None and self.attributes['start'] is not None and self.attributes['end'] is not None, "
                     "result == trunc((secs(some(self.attributes['end'])) - secs(PStart(self))) / PG(self)) + 1)"),
    ],
    modifies=[],
)
