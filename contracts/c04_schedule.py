"""C04 / C06 / C08 / C11 carriers through the task side of the scheduler.

  scriptplan/core/task_scenario.py :: getAllDependencies, _asapReadyForScheduling, schedule (forward bound)
"""
from contracts.model import *  # noqa
import contracts.c01_ledger as L  # noqa

TS = "scriptplan/core/task_scenario.py"

ghost("Deps", ["n", "sc"], "attr(n, 'depends', sc)")
ghost("NDeps", ["n", "sc"], "ite(Deps(n, sc) is None, 0, len(some(Deps(n, sc))))")

contract(
    TS + "::TaskScenario.getAllDependencies", props=["C04"],
    params={"self": Ref("TaskScenario")}, ret=List(Ref("Dep")),
    assumes=L.anc_axioms("self.property"),
    ensures=[
        # the task's own dependencies and those of every enclosing container are all in the result
        ("own", "forall(k, 0, NDeps(self.property, self.scenarioIdx), exists(m, 0, len(result), "
                "result[m] == some(Deps(self.property, self.scenarioIdx))[k]))"),
        ("inherited", "forall(j, implies(j >= 0 and anc(self.property, j) is not None, "
                      "forall(k, 0, NDeps(some(anc(self.property, j)), self.scenarioIdx), exists(m, 0, len(result), "
                      "result[m] == some(Deps(some(anc(self.property, j)), self.scenarioIdx))[k]))))"),
    ],
    loops={0: {"inv": [
        ("cursor", "parent == anc(self.property, _k)"),
        ("own", "forall(k, 0, NDeps(self.property, self.scenarioIdx), exists(m, 0, len(all_deps), "
                "all_deps[m] == some(Deps(self.property, self.scenarioIdx))[k]))"),
        ("inherited", "forall(j, 0, _k, implies(anc(self.property, j) is not None, "
                      "forall(k, 0, NDeps(some(anc(self.property, j)), self.scenarioIdx), exists(m, 0, len(all_deps), "
                      "all_deps[m] == some(Deps(some(anc(self.property, j)), self.scenarioIdx))[k]))))"),
    ], "locals": {"parent": Opt(Ref("Task")), "parent_deps": List(Ref("Dep"), region="@depends")}}},
    locals={"all_deps": local(List(Ref("Dep")), "all_deps"), "own_deps": List(Ref("Dep"), region="@depends"),
            "parent": Opt(Ref("Task"))},
)
