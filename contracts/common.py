"""Shared type declarations (heap fields, classes) for all contract files.

These declarations are the *typing assumptions* of the verification: they say which sort each field of the
real objects has. They are checked against the running code by the engine cross-check (native runs compare
the symbolic post-state with the concrete one), not proved.
"""
from pyvc.spec import *  # noqa
from pyvc import types as T
from pyvc.engine import Unsupported, REG
import z3

# a scoreboard slot: None (free) or "something" (flag word or Task)
Slot = Opt(Ref("SlotVal"))

fields_of("SlotVal", is_task=Bool)      # a slot value is a Task (a booking) or a marker word (leave, off-shift)
klass("SlotVal", isinstance={"Task": "self.is_task"})
fields_of("Scoreboard", startDate=DT, endDate=DT, resolution=Int, size=Int, sb=List(Slot))
fields_of("TimeInterval", start=DT, end=DT)


def _sb_getitem(ex, st, base, idxnode, node):
    # Scoreboard.__getitem__(idx) = self.sb[idx]
    sbv = ex.h.get_field(st, base.t, "Scoreboard.sb", REG.fields["Scoreboard.sb"])
    i = ex.ev(idxnode, st)
    return ex.list_index(st, sbv, i, node)


def _sb_setitem(ex, st, base, idxnode, v, node):
    sbv = ex.h.get_field(st, base.t, "Scoreboard.sb", REG.fields["Scoreboard.sb"])
    i = ex.ev(idxnode, st)
    eff = ex.list_index(st, sbv, i, node, write=True)
    ex.h.list_put(st, sbv.ty, sbv.t, eff, v)


klass("Scoreboard", getitem=_sb_getitem, setitem=_sb_setitem, len="self.size",
      truthy="self.size != 0")

# T(sb, i): start instant of slot i
ghost("T", ["sb", "i"], "dt(secs(sb.startDate) + i * sb.resolution)")
ghost("SBwf", ["sb"],
      "sb.resolution >= 1 and sb.size >= 1 and len(sb.sb) == sb.size")
