"""Property -> contract modules, bounded stand-ins, claimed level."""

PROPS = {
    "C17": {
        "modules": ["c17_scoreboard"],
        "level": "proof",
        "bounded": [{"script": "c17_scan.py"}],
        "explanation": "",
        "trusted_base": [],
        "assumptions": [],
    },
}
