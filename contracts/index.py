"""Property -> contract modules, bounded stand-ins, claimed level."""

PROPS = {
    "C17": {
        "modules": ["c17_scoreboard", "c02_calendar"],
        "level": "proof",
        "bounded": [{"script": "c17_scan.py"}],
        "explanation": "",
    },
    "C13": {
        "modules": ["c13_pairs"],
        "level": "proof",
        "bounded": [{"script": "c17_scan.py"}],
    },
    "C02": {
        "modules": ["c01_ledger"],
        "level": "other",
        "bounded": [],
    },
    "C05": {
        "modules": ["c01_ledger", "c03_task"],
        "level": "other",
        "bounded": [],
    },
    "C01": {
        "modules": ["c01_ledger", "c03_task"],
        "level": "other",
        "bounded": [],
    },
    "C03": {"modules": ["c03_task", "c01_ledger"], "level": "other", "bounded": []},
    "C04": {"modules": ["c04_schedule"], "level": "other", "bounded": []},
    "C06": {"modules": ["c03_task", "c04_schedule"], "level": "other", "bounded": []},
    "C11": {"modules": ["c04_schedule"], "level": "other", "bounded": []},
    "C07": {"modules": ["c07_order", "c04_schedule"], "level": "other", "bounded": []},
    "C09": {"modules": ["c07_order"], "level": "other", "bounded": []},
    "C16": {"modules": ["c16_scenarios"], "level": "other", "bounded": []},
    "C12": {"modules": ["c16_scenarios"], "level": "other", "bounded": []},
    "C14": {"modules": ["c05_limits", "c02_calendar", "c04_schedule"], "level": "other", "bounded": []},
    "C18": {"modules": ["c18_reports"], "level": "other", "bounded": []},
    "C19": {"modules": ["c19_cli"], "level": "other", "bounded": []},
    "C20": {"modules": ["c19_cli"], "level": "other", "bounded": []},
    "C08": {"modules": ["c04_schedule"], "level": "other", "bounded": []},
    "C10": {
        "modules": ["c10_containers", "c01_ledger"],
        "level": "other",
        "bounded": [],
    },
}
