"""Property -> contract modules, bounded stand-ins, claimed level."""

PROPS = {
    "C17": {
        "modules": ["c17_scoreboard", "c02_calendar"],
        "level": "proof",
        "bounded": [{"script": "c17_scan.py"}],
        "explanation": "",
    },
    "C13": {
        "modules": ["c13_pairs"],
        "level": "proof",
        "bounded": [{"script": "c17_scan.py"}],
    },
    "C02": {
        "modules": ["c01_ledger"],
        "level": "other",
        "bounded": [],
    },
    "C05": {
        "modules": ["c01_ledger", "c03_task", "c16_scenarios"],
        "level": "other",
        "bounded": [],
    },
    "C01": {
        "modules": ["c01_ledger", "c03_task"],
        "level": "other",
        "bounded": [],
    },
    "C03": {"modules": ["c03_task", "c01_ledger"], "level": "other", "bounded": []},
    "C04": {"modules": ["c04_schedule"], "level": "other", "bounded": []},
    "C06": {"modules": ["c03_task", "c04_schedule"], "level": "other", "bounded": []},
    "C11": {"modules": ["c04_schedule", "c10_containers"], "level": "other", "bounded": []},
    "C07": {"modules": ["c07_order", "c04_schedule"], "level": "other", "bounded": []},
    "C09": {"modules": ["c07_order"], "level": "other", "bounded": []},
    "C16": {"modules": ["c16_scenarios"], "level": "other", "bounded": []},
    "C12": {"modules": ["c16_scenarios"], "level": "other", "bounded": []},
    "C14": {"modules": ["c05_limits", "c02_calendar", "c04_schedule"], "level": "other", "bounded": []},
    "C18": {"modules": ["c18_reports"], "level": "other", "bounded": []},
    "C19": {"modules": ["c19_cli"], "level": "other", "bounded": []},
    "C20": {"modules": ["c19_cli"], "level": "other", "bounded": []},
    "C08": {"modules": ["c04_schedule"], "level": "other", "bounded": []},
    "C15": {"modules": ["c15_refs"], "level": "other", "bounded": []},
    "C10": {
        "modules": ["c10_containers", "c01_ledger"],
        "level": "other",
        "bounded": [],
    },
}

# bounded universe stand-in (bounded/universe.py <PROP>): the property statement as a run-time check of the real
# parser + scheduler over an enumerated universe of small projects; labelled bounded, never counted as proved
for _p in ("C01", "C02", "C03", "C04", "C05", "C06", "C07", "C08", "C09", "C10", "C11", "C12", "C13", "C14", "C15", "C16", "C18"):
    PROPS[_p]["bounded"] = list(PROPS[_p]["bounded"]) + [{"script": "universe.py", "args": [_p]}]

for _p in ("C19", "C20"):
    PROPS[_p]["bounded"] = list(PROPS[_p]["bounded"]) + [{"script": "cli_scan.py", "args": [_p]}]
