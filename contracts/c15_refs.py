"""C15: reference resolution by walking up '!' levels / from the root (scriptplan/parser/tjp_parser.py)."""
from contracts.model import *  # noqa

TP = "scriptplan/parser/tjp_parser.py"
fields_of("ModelBuilder", dummy=Int)
Parts = note_type(List(Str, region="strparts"))

# ---- specification vocabulary (everything is stated over the task TREE and local ids only) ---------------------------
ghost("NoChild", ["n", "s"], "forall(k, 0, len(n.children), n.children[k].id != s)")
ghost("FirstChild", ["n", "s", "c"], "exists(k, 0, len(n.children), n.children[k] == c and c.id == s and "
                                      "forall(j, 0, k, n.children[j].id != s))")
# walk(b, p, o, k): the node reached from b after consuming p[o], ..., p[o+k-1], each step to the FIRST child with
# that local id; walkok(b, p, o, k): all k steps exist.  Defined by primitive recursion on k (WALK_DEF).
_W = "uf_walk(b, p, o, {k})"
_OK = "uf_walkok(b, p, o, {k})"


def walk_def(b, p, o):
    sub = lambda s: s.replace("b,", b + ",").replace(" p,", " " + p + ",").replace(" o,", " " + o + ",")   # noqa: E731
    w = lambda k: sub(_W.format(k=k))        # noqa: E731
    ok = lambda k: sub(_OK.format(k=k))      # noqa: E731
    return [
        f"{ok('0')} and {w('0')} == {b}",
        f"forall(k, implies(k >= 0, {ok('k + 1')} == ({ok('k')} and {o} + k < len({p}) and not NoChild({w('k')}, {p}[{o} + k]))))",
        f"forall(k, implies(k >= 0 and {ok('k + 1')}, FirstChild({w('k')}, {p}[{o} + k], {w('k + 1')})))",
    ]


_T = "project.tasks._properties"
ghost("NoTop", ["P", "s"], "forall(i, 0, len(P.tasks._properties), not (P.tasks._properties[i].parent is None and P.tasks._properties[i].id == s))")
ghost("NoNested", ["P", "s"], "forall(i, 0, len(P.tasks._properties), not (P.tasks._properties[i].parent is not None and P.tasks._properties[i].id == s))")
ghost("TopHead", ["P", "s", "t"], "exists(i, 0, len(P.tasks._properties), P.tasks._properties[i] == t and t.parent is None and t.id == s and "
                                   "forall(j, 0, i, not (P.tasks._properties[j].parent is None and P.tasks._properties[j].id == s)))")
ghost("NestedHead", ["P", "s", "t"], "exists(i, 0, len(P.tasks._properties), P.tasks._properties[i] == t and t.parent is not None and t.id == s and "
                                      "forall(j, 0, i, not (P.tasks._properties[j].parent is not None and P.tasks._properties[j].id == s)))")
# a top-level task with that id wins; otherwise the first nested task carrying it
ghost("IsHead", ["P", "s", "t"], "TopHead(P, s, t) or (NoTop(P, s) and NestedHead(P, s, t))")

_LEVEL = "uf_bangs(old(ref))"
_PARTS = "uf_split(uf_nobang(old(ref)), '.')"
_BASE = f"anc(from_task, {_LEVEL} - 1)"
_REL = f"({_LEVEL} > 0 and {_BASE} is not None)"

_P = _PARTS
_WR = lambda k: f"uf_walk(some({_BASE}), {_P}, 0, {k})"        # noqa: E731
_OKR = lambda k: f"uf_walkok(some({_BASE}), {_P}, 0, {k})"     # noqa: E731
_FAILR = f"exists(k, 0, len({_P}), {_OKR('k')} and NoChild({_WR('k')}, {_P}[k]))"
_WH = lambda h, k: f"uf_walk({h}, {_P}, 1, {k})"               # noqa: E731
_OKH = lambda h, k: f"uf_walkok({h}, {_P}, 1, {k})"            # noqa: E731
_FAILH = lambda h: f"exists(k, 0, len({_P}) - 1, {_OKH(h, 'k')} and NoChild({_WH(h, 'k')}, {_P}[1 + k]))"   # noqa: E731
_P0 = f"{_P}[0]"
_noold = lambda x: x.replace("old(ref)", "ref")                # noqa: E731

contract(
    TP + "::ModelBuilder._resolve_task_reference", props=["C15"],
    params={"self": Ref("ModelBuilder"), "project": Ref("Project"), "from_task": Ref("Task"), "ref": Str},
    ret=Opt(Ref("Task")),
    assumes=anc_axioms_all("Task") + walk_def(_noold(f"some({_BASE})"), _noold(_P), "0")
    + [f"forall(h, 'Ref:Task', {a})" for a in walk_def("h", _noold(_P), "1")],
    ensures=[
        ("empty", "implies(ref == '', result is None)"),
        # relative reference ('!' * level + path): walk up level-1 parents from the referring task's parent, then
        # down the path, at each step to the first child carrying that local id
        ("relative-none", f"implies(ref != '' and {_REL}, (result is None) == ({_FAILR}))"),
        ("relative-value", f"implies(ref != '' and {_REL} and result is not None, "
                           f"some(result) == {_WR('len(' + _P + ')')})"),
        # absolute reference (no '!', or more '!' than ancestors): the head is the first TOP-LEVEL task with the
        # path's first id, else the first nested task with it; then down the rest of the path
        ("root-no-head", f"implies(ref != '' and not {_REL} and NoTop(project, {_P0}) and NoNested(project, {_P0}), result is None)"),
        ("root-none", f"forall(h, 'Ref:Task', implies(ref != '' and not {_REL} and IsHead(project, {_P0}, h), "
                      f"(result is None) == ({_FAILH('h')})))"),
        ("root-value", f"forall(h, 'Ref:Task', implies(ref != '' and not {_REL} and IsHead(project, {_P0}, h) and result is not None, "
                       f"some(result) == {_WH('h', 'len(' + _P + ') - 1')}))"),
    ],
    loops={
        0: {"inv": [("bangs", "level >= 0 and level + uf_bangs(ref) == uf_bangs(old(ref)) and uf_nobang(ref) == uf_nobang(old(ref))")]},
        1: {"inv": [("up", "base == anc(from_task, _i)")], "locals": {"base": Opt(Ref("Task"))}},
        2: {"inv": [("walk", f"forall(k, 0, _i + 1, {_OKR('k')}) and current == {_WR('_i')}")],
            "locals": {"current": Ref("Task"), "found": Opt(Ref("Task"))}},
        4: {"inv": [("nomatch", "forall(k, 0, _i, candidates[k].id != parts[0])")],
            "locals": {"current": Ref("Task"), "found": Opt(Ref("Task"))}},
        5: {"inv": [("walk", f"forall(k, 0, _i + 1, {_OKH('task', 'k')}) and current == {_WH('task', '_i')}")],
            "locals": {"current": Ref("Task"), "found": Opt(Ref("Task"))}},
    },
    cuts={
        "return None#3": [("no-head", f"NoTop(project, {_P0}) and NoNested(project, {_P0})")],
        "if len(parts) == 1": [
            ("head", f"IsHead(project, {_P0}, task)"),
            ("head-unique", f"forall(h, 'Ref:Task', implies(IsHead(project, {_P0}, h), h == task))"),
        ],
    },
    locals={"base": Opt(Ref("Task")), "current": Ref("Task"), "found": Opt(Ref("Task")), "parts": Parts, "level": Int, "candidates": List(Ref("Task"))},
    modifies=[],
)

# ---- C15 as a lemma over the contract: a relative spelling and the absolute spelling of the same reference ----------
_RES = TP + "::ModelBuilder._resolve_task_reference"
_S1 = "uf_split(uf_nobang(r1), '.')"
_S2 = "uf_split(uf_nobang(r2), '.')"


def _wd(b, p, o):
    return walk_def(b, p, o)


contract(
    "lemma::sibling_reference_equals_absolute_path", props=["C15"],
    client_src="def lemma(mb, project, t, r1, r2):\n"
               "    a = mb._resolve_task_reference(project, t, r1)\n"
               "    b = mb._resolve_task_reference(project, t, r2)\n"
               "    assert a == b\n",
    params={"mb": Ref("ModelBuilder"), "project": Ref("Project"), "t": Ref("Task"), "r1": Str, "r2": Str},
    requires=[
        ("parent", "t.parent is not None"),
        # r1 = '!' + x          (one bang, a single path element x)
        ("r1", f"r1 != '' and uf_bangs(r1) == 1 and len({_S1}) == 1"),
        # r2 = P.id + '.' + x    (no bang; P is t's parent and the task its id denotes from the root)
        ("r2", f"r2 != '' and uf_bangs(r2) == 0 and len({_S2}) == 2 and {_S2}[0] == some(t.parent).id and {_S2}[1] == {_S1}[0]"),
        ("parent-is-head", f"IsHead(project, some(t.parent).id, some(t.parent))"),
    ],
    assumes=anc_axioms_all("Task") + _wd("some(t.parent)", _S1, "0") + _wd("some(t.parent)", _S2, "1"),
    calls={"mb._resolve_task_reference": ("contract", _RES)},
)

contract(
    "lemma::uncle_reference_equals_absolute_path", props=["C15"],
    client_src="def lemma(mb, project, t, r1, r2):\n"
               "    a = mb._resolve_task_reference(project, t, r1)\n"
               "    b = mb._resolve_task_reference(project, t, r2)\n"
               "    assert a == b\n",
    params={"mb": Ref("ModelBuilder"), "project": Ref("Project"), "t": Ref("Task"), "r1": Str, "r2": Str},
    requires=[
        ("grandparent", "t.parent is not None and some(t.parent).parent is not None"),
        # r1 = '!!' + x ;  r2 = G.id + '.' + x   with G the grandparent, denoted by its id from the root
        ("r1", f"r1 != '' and uf_bangs(r1) == 2 and len({_S1}) == 1"),
        ("r2", f"r2 != '' and uf_bangs(r2) == 0 and len({_S2}) == 2 and {_S2}[0] == some(some(t.parent).parent).id and {_S2}[1] == {_S1}[0]"),
        ("grandparent-is-head", "IsHead(project, some(some(t.parent).parent).id, some(some(t.parent).parent))"),
    ],
    assumes=anc_axioms_all("Task") + _wd("some(some(t.parent).parent)", _S1, "0") + _wd("some(some(t.parent).parent)", _S2, "1"),
    calls={"mb._resolve_task_reference": ("contract", _RES)},
)

contract(
    "lemma::nested_sibling_reference_equals_absolute_path", props=["C15"],
    client_src="def lemma(mb, project, t, r1, r2):\n"
               "    a = mb._resolve_task_reference(project, t, r1)\n"
               "    b = mb._resolve_task_reference(project, t, r2)\n"
               "    assert a == b\n",
    params={"mb": Ref("ModelBuilder"), "project": Ref("Project"), "t": Ref("Task"), "r1": Str, "r2": Str},
    requires=[
        ("grandparent", "t.parent is not None and some(t.parent).parent is not None"),
        # r1 = '!' + x ;  r2 = G.id + '.' + P.id + '.' + x  with P = t.parent the first child of G carrying P.id
        ("r1", f"r1 != '' and uf_bangs(r1) == 1 and len({_S1}) == 1"),
        ("r2", f"r2 != '' and uf_bangs(r2) == 0 and len({_S2}) == 3 and {_S2}[0] == some(some(t.parent).parent).id and "
               f"{_S2}[1] == some(t.parent).id and {_S2}[2] == {_S1}[0]"),
        ("grandparent-is-head", "IsHead(project, some(some(t.parent).parent).id, some(some(t.parent).parent))"),
        ("parent-is-first", "FirstChild(some(some(t.parent).parent), some(t.parent).id, some(t.parent))"),
    ],
    assumes=anc_axioms_all("Task") + _wd("some(t.parent)", _S1, "0") + _wd("some(some(t.parent).parent)", _S2, "1"),
    calls={"mb._resolve_task_reference": ("contract", _RES)},
)

# ---- resource lookup by id (the string branch of TaskScenario._resolve_resource) --------------------------------------
TS = "scriptplan/core/task_scenario.py"
_R = "self.project.resources._properties"
contract(
    TS + "::TaskScenario._resolve_resource", variant="by-id", props=["C15"],
    params={"self": Ref("TaskScenario"), "alloc": Str}, ret=Opt(Ref("Resource")),
    static={"hasattr(self.project.resources, 'get')": False, "isinstance(alloc, str)": True},
    ensures=[
        # the lookup depends on local ids only: the FIRST resource (declaration order) carrying that id, else None
        ("none-iff", f"(result is None) == forall(k, 0, len({_R}), {_R}[k].id != alloc)"),
        ("first", f"implies(result is not None, exists(k, 0, len({_R}), {_R}[k] == some(result) and some(result).id == alloc and "
                  f"forall(j, 0, k, {_R}[j].id != alloc)))"),
    ],
    locals={"resource": Opt(Ref("Resource"))},
    modifies=[],
    note="PropertySet has no .get(): the indexed lookup branch is dead (static hasattr == False, checked natively by "
         "tools/selfcheck.py)",
)
