"""C05 (and the limit parts of C12/C16): period counters.

  scriptplan/core/limits.py :: Limit.reset, _idx_to_sb_idx, inc, ok ; Limits.ok, inc, reset
"""
from contracts.model import *  # noqa

LM = "scriptplan/core/limits.py"

fields_of("Limit", name=Str, interval_start=DT, interval_end=DT, period=Real, value=Int, upper=Bool,
          resource=Opt(Str), slot_duration=Int, _dirty=Bool, _scoreboard=List(Int))

ghost("LSlot", ["l", "i"], "dt(secs(l.interval_start) + i * l.slot_duration)")
ghost("LDay", ["l", "i"], "floor(secs(LSlot(l, i))) // 86400 - floor(secs(l.interval_start)) // 86400")
ghost("WeekOf", ["d"], "(floor(secs(d)) // 86400 + 3) // 7")       # absolute Monday-based week number of an instant
ghost("LWeek", ["l", "i"], "WeekOf(LSlot(l, i)) - WeekOf(l.interval_start)")
ghost("LimWf", ["l"], "l.slot_duration >= 1 and l.period > 0")

contract(
    LM + "::Limit._idx_to_sb_idx", props=["C05", "C14"],
    params={"self": Ref("Limit"), "index": Int}, ret=Int,
    requires=[("wf", "LimWf(self)")],
    ensures=[
        # property: dailymax counts per calendar day
        ("daily", "implies(self.period == 86400, result == LDay(self, index))"),
        # property: weeklymax counts per ISO (Monday-based) week: the index is the number of whole weeks between
        # the week of the interval start and the week of the slot
        ("weekly", "implies(self.period == 604800, result == LWeek(self, index))"),
        ("weekly-nonneg", "implies(self.period == 604800 and index >= 0, result >= 0)"),
        ("other", "implies(self.period != 86400 and self.period != 604800, result == trunc(index * self.slot_duration / self.period))"),
    ],
    replay="limit", probes={"istart": "secs(self.interval_start)", "period": "self.period", "slot": "self.slot_duration", "index": "index"},
    relational=[
        # property: weeklymax counts per ISO week -- two slots of the same ISO week share a counter
        ("weekly-same-week", ["self"],
         "self.period == 604800 and (floor(secs(LSlot(self, index_1))) // 86400 + 3) // 7 == (floor(secs(LSlot(self, index_2))) // 86400 + 3) // 7",
         "result_1 == result_2"),
        ("daily-same-day", ["self"],
         "self.period == 86400 and floor(secs(LSlot(self, index_1))) // 86400 == floor(secs(LSlot(self, index_2))) // 86400",
         "result_1 == result_2"),
        ("daily-different-day", ["self"],
         "self.period == 86400 and floor(secs(LSlot(self, index_1))) // 86400 != floor(secs(LSlot(self, index_2))) // 86400",
         "result_1 != result_2"),
    ],
)

ghost("cnt", ["l", "p"], "l._scoreboard[p]")
# counter of period p as seen by the limit: a period beyond the sized array has not been booked yet
ghost("cntv", ["l", "p"], "ite(p < len(l._scoreboard), l._scoreboard[p], 0)")
ghost("InRange", ["l", "p"], "0 <= p and p < len(l._scoreboard)")

contract(
    LM + "::Limit.reset", props=["C05", "C12", "C16"],
    params={"self": Ref("Limit"), "index": Opt(Int)}, defaults={"index": None},
    requires=[("wf", "LimWf(self)"), ("order", "self.interval_start <= self.interval_end")],
    ensures=[
        ("zeroed", "implies(old(self._dirty) and index is None, forall(p, 0, len(self._scoreboard), cnt(self, p) == 0))"),
        ("sized", "implies(old(self._dirty) and index is None, "
                  "len(self._scoreboard) == ite(trunc((secs(self.interval_end) - secs(self.interval_start)) / self.period) + 1 >= 1, "
                  "trunc((secs(self.interval_end) - secs(self.interval_start)) / self.period) + 1, 1))"),
        ("clean", "implies(old(self._dirty), not self._dirty)"),
        # C16: a full reset installs a newly allocated counter list (never one shared with another limit)
        ("fresh-counters", "implies(old(self._dirty) and index is None, isfresh(self._scoreboard))"),
        ("noop", "implies(not old(self._dirty), self._scoreboard == old(self._scoreboard) and len(self._scoreboard) == old(len(self._scoreboard)))"),
        ("frame", "self.value == old(self.value) and self.period == old(self.period) and self.upper == old(self.upper) "
                  "and self.slot_duration == old(self.slot_duration) and self.interval_start == old(self.interval_start) "
                  "and self.interval_end == old(self.interval_end) and self.resource == old(self.resource)"),
    ],
    calls={"self._contains": ("const", True),
           "self._idx_to_sb_idx": ("contract", LM + "::Limit._idx_to_sb_idx")},
    modifies=["Limit._scoreboard@self", "Limit._dirty@self", "$obj:self._scoreboard"],
)

contract(
    LM + "::Limit.inc", props=["C05"],
    params={"self": Ref("Limit"), "index": Int, "resource": Opt(Str)}, defaults={"resource": None},
    requires=[("wf", "LimWf(self)")],
    ensures=[
        # property: every booking of a period of the horizon (p >= 0) is counted, wherever the horizon ends
        ("counted", "implies((self.resource is None or self.resource == resource) and uf_sbidx(self, index) >= 0, "
                    "cntv(self, uf_sbidx(self, index)) == old(cntv(self, uf_sbidx(self, index))) + 1 and self._dirty and uf_sbidx(self, index) < len(self._scoreboard))"),
        ("others", "forall(q, implies(q != uf_sbidx(self, index) and q >= 0, cntv(self, q) == old(cntv(self, q))))"),
        ("skipped", "implies(not (self.resource is None or self.resource == resource), "
                    "forall(q, implies(q >= 0, cntv(self, q) == old(cntv(self, q)))))"),
        ("len", "len(self._scoreboard) >= old(len(self._scoreboard))"),
        ("frame", "forall(o, 'Ref:Limit', implies(o._scoreboard != self._scoreboard, "
                  "len(o._scoreboard) == old(len(o._scoreboard)) and forall(q, cntv(o, q) == old(cntv(o, q)))))"),
    ],
    calls={"self._idx_to_sb_idx": ("spec", ["self", "i"], "uf_sbidx(self, i)")},
    modifies=["Limit._dirty@self", "$obj:self._scoreboard"],
    replay="limit", probes={"istart": "secs(self.interval_start)", "period": "self.period", "slot": "self.slot_duration", "index": "index"},
)

contract(
    LM + "::Limit.ok", props=["C05"],
    params={"self": Ref("Limit"), "index": Opt(Int), "upper": Bool, "resource": Opt(Str)}, ret=Bool,
    defaults={"resource": None},
    ghost_params={"p": Int},
    requires=[("wf", "LimWf(self)"), ("p", "implies(index is not None, p == uf_sbidx(self, some(index)))")],
    ensures=[
        # property: an upper limit admits a further booking in period p only while fewer than `value` slots are
        # counted there
        ("upper", "implies(index is not None and self.upper and upper and (self.resource is None or self.resource == resource) "
                  "and p >= 0, result == (cntv(self, p) < self.value))"),
        ("lower", "implies(index is not None and not self.upper and not upper and (self.resource is None or self.resource == resource) "
                  "and p >= 0, result == (cntv(self, p) >= self.value))"),
        ("other-kind", "implies(self.upper != upper, result)"),
        ("other-resource", "implies(self.resource is not None and self.resource != resource, result)"),
    ],
    calls={"self._idx_to_sb_idx": ("spec", ["self", "i"], "uf_sbidx(self, i)")},
    replay="limit", probes={"istart": "secs(self.interval_start)", "period": "self.period", "slot": "self.slot_duration",
                            "index": "some(index)", "value": "self.value", "upper": "self.upper", "upper_arg": "upper"},
)

# functional view of Limit.ok for an index (what a caller may rely on)
ghost("LimitOkSpec", ["l", "i", "up", "res"],
      "ite(l.upper != up, True, ite(l.resource is not None and l.resource != res, True, "
      "ite(uf_sbidx(l, i) < 0, True, ite(l.upper, cntv(l, uf_sbidx(l, i)) < l.value, cntv(l, uf_sbidx(l, i)) >= l.value))))")
ghost("LimitsOkSpec", ["ls", "i", "up", "res"],
      "forall(k, 0, len(ls._limits), LimitOkSpec(ls._limits[k], i, up, res))",
      opaque=Bool, types=[Ref("Limits"), Int, Bool, Opt(Str)])
# the limit objects of a collection are pairwise different objects with their own counter lists
ghost("LimitsWf", ["ls"],
      "forall(a, 0, len(ls._limits), LimWf(ls._limits[a]) and forall(b, 0, len(ls._limits), implies(a != b, "
      "ls._limits[a] != ls._limits[b] and ls._limits[a]._scoreboard != ls._limits[b]._scoreboard)))")

contract(
    LM + "::Limit.ok", variant="exact", props=["C05"],
    params={"self": Ref("Limit"), "index": Opt(Int), "upper": Bool, "resource": Opt(Str)}, ret=Bool,
    defaults={"resource": None},
    requires=[("wf", "LimWf(self)"), ("idx", "index is not None")],
    ensures=[("exact", "result == LimitOkSpec(self, some(index), upper, resource)")],
    calls={"self._idx_to_sb_idx": ("spec", ["self", "i"], "uf_sbidx(self, i)")},
)

contract(
    LM + "::Limits.ok", props=["C05"], reveal=["LimitsOkSpec"],
    params={"self": Ref("Limits"), "index": Opt(Int), "upper": Bool, "resource": Opt(Str)}, ret=Bool,
    defaults={"index": None, "upper": True, "resource": None},
    requires=[("wf", "LimitsWf(self)"), ("idx", "index is not None")],
    ensures=[("exact", "result == LimitsOkSpec(self, some(index), upper, resource)")],
    calls={"limit.ok": ("spec", ["self", "i", "up", "res"], "LimitOkSpec(self, some(i), up, res)")},
    note="limit.ok(...) inside the generator expression is used through the functional form proved as Limit.ok[exact]",
)

contract(
    LM + "::Limits.inc", props=["C05"],
    params={"self": Ref("Limits"), "index": Int, "resource": Opt(Str)}, defaults={"resource": None},
    requires=[("wf", "LimitsWf(self)")],
    ensures=[
        ("counted", "forall(k, 0, len(self._limits), implies((self._limits[k].resource is None or self._limits[k].resource == resource) "
                    "and uf_sbidx(self._limits[k], index) >= 0, "
                    "cntv(self._limits[k], uf_sbidx(self._limits[k], index)) == old(cntv(self._limits[k], uf_sbidx(self._limits[k], index))) + 1))"),
        ("same-limits", "len(self._limits) == old(len(self._limits)) and forall(k, 0, len(self._limits), self._limits[k] == old(self._limits[k]))"),
    ],
    calls={"limit.inc": ("contract", LM + "::Limit.inc")},
    loops={0: {"inv": [
        ("done", "forall(k, 0, _i, implies((self._limits[k].resource is None or self._limits[k].resource == resource) "
                 "and uf_sbidx(self._limits[k], index) >= 0, "
                 "cntv(self._limits[k], uf_sbidx(self._limits[k], index)) == old(cntv(self._limits[k], uf_sbidx(self._limits[k], index))) + 1))"),
        ("todo", "forall(k, _i, len(self._limits), forall(q, implies(q >= 0, cntv(self._limits[k], q) == old(cntv(self._limits[k], q)))))"),
        ("same", "len(self._limits) == old(len(self._limits)) and forall(k, 0, len(self._limits), self._limits[k] == old(self._limits[k]) "
                 "and self._limits[k]._scoreboard == old(self._limits[k]._scoreboard) and self._limits[k].resource == old(self._limits[k].resource))"),
    ]}},
    modifies=["Limit._dirty", "$region:Limit._scoreboard"],
)

# ---- C14: period indices do not depend on where the project sits in the calendar (whole-week shifts) ----------------
contract(
    "lemma::period_index_week_shift", props=["C14", "C05"],
    client_src="def lemma(s0, slot_secs, k):\n    pass\n",
    params={"s0": Int, "slot_secs": Int, "k": Int},
    requires=[],
    ensures=[
        ("weekly", "WeekOf(dt(s0 + 604800 * k + slot_secs)) - WeekOf(dt(s0 + 604800 * k)) == "
                   "WeekOf(dt(s0 + slot_secs)) - WeekOf(dt(s0))"),
        ("daily", "(s0 + 604800 * k + slot_secs) // 86400 - (s0 + 604800 * k) // 86400 == "
                  "(s0 + slot_secs) // 86400 - s0 // 86400"),
        ("weekday", "dt(s0 + 604800 * k).weekday() == dt(s0).weekday()"),
        ("hour-minute", "dt(s0 + 604800 * k).hour == dt(s0).hour and dt(s0 + 604800 * k).minute == dt(s0).minute"),
    ],
    note="whole-second instants. The exact clauses of _idx_to_sb_idx (daily, weekly), WorkingHours.onShift and "
         "_isDefaultWorkingTime are functions of exactly these calendar components; this lemma makes each of them "
         "invariant under whole-week shifts of every date",
)
