"""C16 / C12: per-scenario state is separate and is reset before every scheduling run.

  scriptplan/core/limits.py :: Limit.__init__, Limit.copy, Limits.__init__ (copy constructor), Limits.copy, Limits.reset
  scriptplan/core/task_scenario.py :: TaskScenario.prepareScheduling
"""
from contracts.model import *  # noqa
import contracts.c05_limits  # noqa
import contracts.c03_task  # noqa

LM = "scriptplan/core/limits.py"
TS = "scriptplan/core/task_scenario.py"

_SAMEF = ("self.name == name and self.interval_start == interval_start and self.interval_end == interval_end and "
          "self.period == period and self.value == value and self.upper == upper and self.resource == resource and "
          "self.slot_duration == slot_duration")

contract(
    LM + "::Limit.__init__", props=["C16", "C12"],
    params={"self": Ref("Limit"), "name": Str, "interval_start": DT, "interval_end": DT, "period": Real, "value": Int,
            "upper": Bool, "resource": Opt(Str), "slot_duration": Int},
    defaults={"resource": None, "slot_duration": 3600},
    requires=[("wf", "slot_duration >= 1 and period > 0 and interval_start <= interval_end")],
    ensures=[("fields", _SAMEF),
             ("zeroed", "forall(p, 0, len(self._scoreboard), self._scoreboard[p] == 0) and len(self._scoreboard) >= 1"),
             # C16: the counter list is the object's own (allocated here)
             ("own-counters", "isfresh(self._scoreboard)")],
    calls={"self.reset": ("contract", LM + "::Limit.reset")},
    modifies=["Limit.name@self", "Limit.interval_start@self", "Limit.interval_end@self", "Limit.period@self",
              "Limit.value@self", "Limit.upper@self", "Limit.resource@self", "Limit.slot_duration@self",
              "Limit._dirty@self", "Limit._scoreboard@self"],
)

contract(
    LM + "::Limit.copy", props=["C16"],
    params={"self": Ref("Limit")}, ret=Ref("Limit"),
    requires=[("wf", "LimWf(self) and self.interval_start <= self.interval_end")],
    ensures=[
        # C16: the copy is a new object with its own, zeroed counters
        ("new-object", "isfresh(result) and result != self"),
        ("own-counters", "isfresh(result._scoreboard) and result._scoreboard != self._scoreboard"),
        ("zeroed", "forall(p, 0, len(result._scoreboard), result._scoreboard[p] == 0)"),
        ("same-limit", "result.name == self.name and result.period == self.period and result.value == self.value and "
                       "result.upper == self.upper and result.resource == self.resource and result.slot_duration == self.slot_duration "
                       "and result.interval_start == self.interval_start and result.interval_end == self.interval_end"),
        ("source-untouched", "self._scoreboard == old(self._scoreboard) and len(self._scoreboard) == old(len(self._scoreboard)) and "
                             "forall(p, 0, len(self._scoreboard), self._scoreboard[p] == old(self._scoreboard[p]))"),
    ],
    calls={"Limit": ("construct", "Limit", LM + "::Limit.__init__"),
           "dup.reset": ("contract", LM + "::Limit.reset")},
    locals={"dup": Ref("Limit")},
)

contract(
    TS + "::TaskScenario.prepareScheduling", props=["C12", "C16"],
    params={"self": Ref("TaskScenario")},
    requires=[("limits-wf", "implies(attr(self.property, 'limits', self.scenarioIdx) is not None, LimitsWf(some(attr(self.property, 'limits', self.scenarioIdx))))")],
    ensures=[
        # C12/C16: every per-run field of the task is back to its initial value
        ("reset", "not self.isRunAway and self.currentSlotIdx is None and self.doneDuration == 0 and self.doneLength == 0 and "
                  "self.doneEffort == 0 and not self.scheduled and self._selectedResources is None and self.slotStartOffset == 0"),
    ],
    calls={"limits.reset": ("havoc", NoneT, ["Limit._dirty", "Limit._scoreboard", "$region:Limit._scoreboard"])},
    modifies=["TaskScenario.isRunAway@self", "TaskScenario.currentSlotIdx@self", "TaskScenario.doneDuration@self",
              "TaskScenario.doneLength@self", "TaskScenario.doneEffort@self", "TaskScenario.scheduled@self",
              "TaskScenario._selectedResources@self", "TaskScenario.slotStartOffset@self",
              "Limit._dirty", "Limit._scoreboard", "$region:Limit._scoreboard"],
)


# ---- C12: every parse starts from an empty macro table of its own ------------------------------------------------------
MP = "scriptplan/parser/macro_processor.py"
fields_of("MacroProcessor", _macros=Dict(Str, Str), _project_start=Opt(Str), _project_end=Opt(Str), _now=Opt(Str))
contract(
    MP + "::MacroProcessor.__init__", props=["C12"],
    params={"self": Ref("MacroProcessor")},
    ensures=[
        # no definition survives from an earlier text: the table is a newly allocated, empty dict
        ("own-table", "isfresh(self._macros)"),
        ("empty", "forall(k, 'Str', not (k in self._macros))"),
        ("no-dates", "self._project_start is None and self._project_end is None and self._now is None"),
    ],
    modifies=["MacroProcessor._macros@self", "MacroProcessor._project_start@self", "MacroProcessor._project_end@self",
              "MacroProcessor._now@self"],
)

# ---- C05: a declared limit (hours) is converted to whole slots by rounding DOWN -----------------------------------------
_LAST = "self._limits[len(self._limits) - 1]"
contract(
    LM + "::Limits.setLimit", props=["C05"],
    params={"self": Ref("Limits"), "name": Str, "value": Real, "interval": Opt(Tuple(DT, DT)), "resource": Opt(Str)},
    defaults={"interval": None, "resource": None},
    requires=[("project", "self.project is not None and PG(some(self.project)) >= 1 and some(self.project).attributes['start'] is not None "
                          "and some(self.project).attributes['end'] is not None and "
                          "PStart(some(self.project)) <= some(some(self.project).attributes['end'])"),
              ("value", "value >= 0"),
              ("interval", "implies(interval is not None, some(interval)[0] <= some(interval)[1])"),
              ("known", "name == 'dailymax' or name == 'weeklymax' or name == 'dailymin' or name == 'weeklymin' or "
                        "name == 'monthlymax' or name == 'monthlymin'")],
    ensures=[
        ("added", f"len(self._limits) >= 1 and isfresh({_LAST}) and {_LAST}.name == name and {_LAST}.resource == resource"),
        # the enforced number of slots never stands for more time than the declared hours, and for less than one slot less
        ("never-more", f"{_LAST}.value * {_LAST}.slot_duration <= value * 3600"),
        ("at-most-one-slot-less", f"({_LAST}.value + 1) * {_LAST}.slot_duration > value * 3600"),
        ("period", f"{_LAST}.period == ite(name == 'dailymax' or name == 'dailymin', 86400, "
                   f"ite(name == 'weeklymax' or name == 'weeklymin', 604800, 2592000))"),
        ("kind", f"{_LAST}.upper == (name == 'dailymax' or name == 'weeklymax' or name == 'monthlymax')"),
        ("slot", f"{_LAST}.slot_duration == PG(some(self.project))"),
    ],
    calls={"Limit": ("construct", "Limit", LM + "::Limit.__init__")},
    locals={"interval_start": DT, "interval_end": DT, "period": Real, "upper": Bool},
    modifies=["Limits._limits@self"],
)
