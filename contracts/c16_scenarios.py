"""C16 / C12: per-scenario state is separate and is reset before every scheduling run.

  scriptplan/core/limits.py :: Limit.__init__, Limit.copy, Limits.__init__ (copy constructor), Limits.copy, Limits.reset
  scriptplan/core/task_scenario.py :: TaskScenario.prepareScheduling
"""
from contracts.model import *  # noqa
import contracts.c05_limits  # noqa
import contracts.c03_task  # noqa

LM = "scriptplan/core/limits.py"
TS = "scriptplan/core/task_scenario.py"

_SAMEF = ("self.name == name and self.interval_start == interval_start and self.interval_end == interval_end and "
          "self.period == period and self.value == value and self.upper == upper and self.resource == resource and "
          "self.slot_duration == slot_duration")

contract(
    LM + "::Limit.__init__", props=["C16", "C12"],
    params={"self": Ref("Limit"), "name": Str, "interval_start": DT, "interval_end": DT, "period": Real, "value": Int,
            "upper": Bool, "resource": Opt(Str), "slot_duration": Int},
    defaults={"resource": None, "slot_duration": 3600},
    requires=[("wf", "slot_duration >= 1 and period > 0 and interval_start <= interval_end")],
    ensures=[("fields", _SAMEF),
             ("zeroed", "forall(p, 0, len(self._scoreboard), self._scoreboard[p] == 0) and len(self._scoreboard) >= 1"),
             # C16: the counter list is the object's own (allocated here)
             ("own-counters", "isfresh(self._scoreboard)")],
    calls={"self.reset": ("contract", LM + "::Limit.reset")},
    modifies=["Limit.name@self", "Limit.interval_start@self", "Limit.interval_end@self", "Limit.period@self",
              "Limit.value@self", "Limit.upper@self", "Limit.resource@self", "Limit.slot_duration@self",
              "Limit._dirty@self", "Limit._scoreboard@self"],
)

contract(
    LM + "::Limit.copy", props=["C16"],
    params={"self": Ref("Limit")}, ret=Ref("Limit"),
    requires=[("wf", "LimWf(self) and self.interval_start <= self.interval_end")],
    ensures=[
        # C16: the copy is a new object with its own, zeroed counters
        ("new-object", "isfresh(result) and result != self"),
        ("own-counters", "isfresh(result._scoreboard) and result._scoreboard != self._scoreboard"),
        ("zeroed", "forall(p, 0, len(result._scoreboard), result._scoreboard[p] == 0)"),
        ("same-limit", "result.name == self.name and result.period == self.period and result.value == self.value and "
                       "result.upper == self.upper and result.resource == self.resource and result.slot_duration == self.slot_duration "
                       "and result.interval_start == self.interval_start and result.interval_end == self.interval_end"),
        ("source-untouched", "self._scoreboard == old(self._scoreboard) and len(self._scoreboard) == old(len(self._scoreboard)) and "
                             "forall(p, 0, len(self._scoreboard), self._scoreboard[p] == old(self._scoreboard[p]))"),
    ],
    calls={"Limit": ("construct", "Limit", LM + "::Limit.__init__"),
           "dup.reset": ("contract", LM + "::Limit.reset")},
    locals={"dup": Ref("Limit")},
)

contract(
    TS + "::TaskScenario.prepareScheduling", props=["C12", "C16"],
    params={"self": Ref("TaskScenario")},
    requires=[("limits-wf", "implies(attr(self.property, 'limits', self.scenarioIdx) is not None, LimitsWf(some(attr(self.property, 'limits', self.scenarioIdx))))")],
    ensures=[
        # C12/C16: every per-run field of the task is back to its initial value
        ("reset", "not self.isRunAway and self.currentSlotIdx is None and self.doneDuration == 0 and self.doneLength == 0 and "
                  "self.doneEffort == 0 and not self.scheduled and self._selectedResources is None and self.slotStartOffset == 0"),
    ],
    calls={"limits.reset": ("havoc", NoneT, ["Limit._dirty", "Limit._scoreboard", "$region:Limit._scoreboard"])},
    modifies=["TaskScenario.isRunAway@self", "TaskScenario.currentSlotIdx@self", "TaskScenario.doneDuration@self",
              "TaskScenario.doneLength@self", "TaskScenario.doneEffort@self", "TaskScenario.scheduled@self",
              "TaskScenario._selectedResources@self", "TaskScenario.slotStartOffset@self",
              "Limit._dirty", "Limit._scoreboard", "$region:Limit._scoreboard"],
)
