"""C07 / C09 / C11 step contracts of the work-list loop.

  scriptplan/core/project.py :: Project.scheduleScenario (sort order, first-ready selection, termination)
"""
from contracts.model import *  # noqa
import contracts.c10_containers  # noqa
import contracts.c03_task  # noqa  (field declarations of the booking machinery)

PJ = "scriptplan/core/project.py"

ghost("Prio", ["t", "sc"], "ite(attr(t, 'priority', sc) is None or some(attr(t, 'priority', sc)) == 0, 500, some(attr(t, 'priority', sc)))")
ghost("Crit", ["t", "sc"], "ite(attr(t, 'pathcriticalness', sc) is None, 0.0, some(attr(t, 'pathcriticalness', sc)))")
ghost("Seq", ["t"], "ite(attr(t, 'seqno') is None, 0, some(attr(t, 'seqno')))")
# the answer of Task.readyForScheduling in the current state (a function of dates, flags and dependency lists)
ghost("Ready", ["t", "sc"], None, opaque=Bool, types=[Ref("Task"), Int],
      reads=["@scheduled", "@start", "@end", "@forward", "@depends"])

_SCHED_MOD = ["@start", "@end", "@scheduled", "@forward", "TaskScenario.scheduled", "TaskScenario.currentSlotIdx",
              "TaskScenario.doneEffort", "TaskScenario.slotStartOffset", "TaskScenario.isRunAway",
              "TaskScenario._lastBookedResource", "TaskScenario._lastBookedSlot", "TaskScenario._selectedResources",
              "TaskScenario._selectedAlternative", "TaskScenario.doneDuration", "TaskScenario.doneLength",
              "$region:ResourceScenario.slotSecondsUsed", "$region:ResourceScenario.slotTaskUsage",
              "$region:ResourceScenario.firstBookedSlots", "$region:ResourceScenario.lastBookedSlots",
              "ResourceScenario._effort", "ResourceScenario.firstBookedSlot", "ResourceScenario.lastBookedSlot",
              "$region:Scoreboard.sb", "$region:@duties", "Limit._dirty", "$region:Limit._scoreboard"]

contract(
    PJ + "::Project.scheduleScenario", props=["C07", "C09", "C11"],
    params={"self": Ref("Project"), "scIdx": Int}, ret=Bool,
    requires=[("tree", "forall(t, 'Ref:Task', forall(k, 0, len(t.children), t.children[k] != t))")],
    ensures=[],
    calls={
        "self._propagateALAPMode": ("havoc", NoneT, ["@forward"]),
        "task.readyForScheduling": ("spec", ["self", "sc"], "Ready(self, sc)"),
        "task.schedule": ("check", [
            # C07/C09: the task placed in this round is the first ready task of the priority-sorted list
            ("first-ready", "forall(j, 0, _pos, not Ready(tasks[j], scIdx))"),
            ("is-ready", "Ready(tasks[_pos], scIdx)"),
            ("is-from-list", "task == tasks[_pos] and 0 <= _pos and _pos < len(tasks)"),
        ], ("havoc", Bool, _SCHED_MOD)),
        "self._updateContainerTaskStatus": ("contract", PJ + "::Project._updateContainerTaskStatus"),
        "self.warning": ("ignore",),
        "tasks.sort": ("check", [], None),
    },
    loops={
        0: {"locals": {"is_explicit_milestone": Opt(Bool), "effort": Real, "duration": Real, "length": Real,
                       "start": Opt(DT), "end": Opt(DT), "is_implicit_milestone": Bool}},
        # the work-list loop: the list stays sorted (priority desc, then declaration order) and shrinks every round
        1: {"inv": [
            ("sorted", "forall(a, 0, len(tasks), forall(b, 0, len(tasks), implies(a < b, "
                       "Prio(tasks[a], scIdx) > Prio(tasks[b], scIdx) or (Prio(tasks[a], scIdx) == Prio(tasks[b], scIdx) and "
                       "(Crit(tasks[a], scIdx) > Crit(tasks[b], scIdx) or (Crit(tasks[a], scIdx) == Crit(tasks[b], scIdx) and "
                       "Seq(tasks[a]) <= Seq(tasks[b])))))))"),
            ("tree", "forall(t, 'Ref:Task', forall(k, 0, len(t.children), t.children[k] != t))"),
        ], "decreases": "len(tasks)", "locals": {"taskToRemove": Opt(Ref("Task"))}},
    },
    locals={"tasks": local(List(Ref("Task")), "worklist"), "failedTasks": local(List(Ref("Task")), "failed"),
            "taskToRemove": Opt(Ref("Task")), "all_tasks": REG.fields["TaskSet._properties"]},
    modifies=_SCHED_MOD,
    note="Task.schedule is abstracted by its frame here (its own contract is TaskScenario.schedule); the priority and "
         "sequence attributes are not in that frame, so the sort order is stable across rounds",
)
