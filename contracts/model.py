"""Typing model of the scriptplan object graph used by the scheduling contracts.

Everything here is an *assumption about shapes* (which sort a field or attribute has), validated by the native
cross-check and listed in the evidence; no behaviour is specified here.
"""
from contracts.common import *  # noqa
from pyvc import types as T
from pyvc.engine import Unsupported, REG
import ast
import z3

# ---- Project and its attribute record --------------------------------------------------------------------------
fields_of("Project", attributes=Ref("ProjAttrs"), scoreboard=Opt(Ref("Scoreboard")),
          scoreboardNoLeaves=Opt(Ref("Scoreboard")), tasks=Ref("PropertySet"), resources=Ref("PropertySet"))
fields_of("ProjAttrs", start=Opt(DT), end=Opt(DT), scheduleGranularity=Int,
          vacations=List(Ref("Leave")), leaves=List(Ref("Leave")), scheduling=Opt(Str), now=DT)
fields_of("Leave", interval=Opt(Ref("TimeInterval")), type_idx=Int)


def _rec_getitem(cls):
    def hook(ex, st, base, idxnode, node):
        if not (isinstance(idxnode, ast.Constant) and isinstance(idxnode.value, str)):
            raise Unsupported("record key must be a literal", node)
        fk = REG.field_key(idxnode.value, cls)
        if fk is None:
            raise Unsupported(f"record key {cls}.{idxnode.value} has no declared type", node)
        return ex.h.get_field(st, base.t, fk[0], fk[1])
    return hook


def _rec_setitem(cls):
    def hook(ex, st, base, idxnode, v, node):
        if not (isinstance(idxnode, ast.Constant) and isinstance(idxnode.value, str)):
            raise Unsupported("record key must be a literal", node)
        fk = REG.field_key(idxnode.value, cls)
        if fk is None:
            raise Unsupported(f"record key {cls}.{idxnode.value} has no declared type", node)
        ex.h.set_field(st, base.t, fk[0], fk[1], v)
    return hook


klass("ProjAttrs", getitem=_rec_getitem("ProjAttrs"), setitem=_rec_setitem("ProjAttrs"),
      methods={"get": ("keyfield", "ProjAttrs")})


def _proj_getitem(ex, st, base, idxnode, node):
    attrs_v = ex.h.get_field(st, base.t, "Project.attributes", Ref("ProjAttrs"))
    return _rec_getitem("ProjAttrs")(ex, st, attrs_v, idxnode, node)


klass("Project", getitem=_proj_getitem, has=("scenario",))
klass("Leave", has=("interval", "type_idx"), hasnot=("contains",))

# project-level ghost functions
ghost("PG", ["p"], "p.attributes['scheduleGranularity']")
ghost("PStart", ["p"], "some(p.attributes['start'])")
ghost("PT", ["p", "i"], "dt(secs(some(p.attributes['start'])) + i * p.attributes['scheduleGranularity'])")

# ---- working hours ------------------------------------------------------------------------------------------------
HM = Tuple(Int, Int)
Interval = Tuple(HM, HM)
fields_of("WorkingHours", project=Ref("Project"), _hours=Dict(Int, List(Interval)), _custom_hours_set=Bool)

# minutes-of-day helpers over an interval tuple ((sh, sm), (eh, em))
ghost("iv_s", ["iv"], "iv[0][0] * 60 + iv[0][1]")
ghost("iv_e", ["iv"], "iv[1][0] * 60 + iv[1][1]")
# slot minute m lies in interval iv of the same weekday (cross-midnight intervals wrap inside the day)
ghost("in_iv", ["iv", "m"],
      "(iv_s(iv) <= m and m < iv_e(iv)) if iv_e(iv) > iv_s(iv) else (m >= iv_s(iv) or m < iv_e(iv))")
# m lies in the after-midnight tail of a cross-midnight interval of the previous weekday
ghost("in_tail", ["iv", "m"], "iv_e(iv) <= iv_s(iv) and m < iv_e(iv)")
# the working-time predicate written from the property: weekday wd (0=Mon), minute m, table h
ghost("Working", ["h", "wd", "m"],
      "(wd in h and exists(k, 0, len(h[wd]), in_iv(h[wd][k], m))) or "
      "(wd in h and len(h[wd]) > 0 and ((wd + 6) % 7) in h and exists(k, 0, len(h[(wd + 6) % 7]), in_tail(h[(wd + 6) % 7][k], m)))")
# type invariant of the table: weekdays 0..6, hours 0..24, minutes 0..59
ghost("HoursWf", ["h"],
      "forall(d, implies(d in h, 0 <= d and d <= 6 and len(h[d]) <= 1000000 and forall(k, 0, len(h[d]), "
      "0 <= h[d][k][0][0] and h[d][k][0][0] <= 24 and 0 <= h[d][k][0][1] and h[d][k][0][1] <= 59 and "
      "0 <= h[d][k][1][0] and h[d][k][1][0] <= 24 and 0 <= h[d][k][1][1] and h[d][k][1][1] <= 59)))")

# ---- resources, tasks, scenario data ------------------------------------------------------------------------------
TaskUsage = List(Tuple(Ref("Task"), Real), ghost_sum=[1])
fields_of("ResourceScenario", property=Ref("Resource"), project=Ref("Project"), scenarioIdx=Int,
          scoreboard=Opt(Ref("Scoreboard")), slotSecondsUsed=Dict(Int, Real), slotTaskUsage=Dict(Int, TaskUsage),
          _effort=Real, firstBookedSlot=Opt(Int), lastBookedSlot=Opt(Int),
          firstBookedSlots=Dict(Ref("Task"), Int), lastBookedSlots=Dict(Ref("Task"), Int))
fields_of("Resource", parent=Opt(Ref("Resource")), data=Opt(List(Opt(Ref("ResourceScenario")))), id=Str,
          project=Ref("Project"))
fields_of("Task", parent=Opt(Ref("Task")), data=Opt(List(Opt(Ref("TaskScenario")))), id=Str, project=Ref("Project"))
fields_of("Shift", parent=Opt(Ref("Shift")))
fields_of("Limits", _limits=List(Ref("Limit")), project=Opt(Ref("Project")))

attrs(limits=Opt(Ref("Limits")), efficiency=Opt(Real), duties=Opt(List(Ref("Task"))), leaves=Opt(List(Ref("Leave"))),
      timezone=Opt(Str), shifts=Opt(Ref("Shift")), workinghours=Opt(Ref("WorkingHours")), rate=Opt(Real))
klass("Resource", attrget=True, has=("data",))
klass("Task", attrget=True, has=("data",))
klass("Shift", attrget=True)
klass("Limits", truthy="len(self._limits) > 0", has=("ok", "inc"))
klass("WorkingHours", has=("onShift",))
klass("TaskScenario", has=("incLimits", "slotStartOffset", "_lastBookedResource", "_selectedResources", "doneEffort",
                           "doneDuration", "doneLength"))

# ledger view of a ResourceScenario
ghost("D", ["rs"], "rs.project.attributes['scheduleGranularity']")
ghost("used", ["rs", "s"], "rs.slotSecondsUsed.get(s, 0.0)")
ghost("usage", ["rs", "s"], "ite(s in rs.slotTaskUsage, seqsum(rs.slotTaskUsage[s], 1), 0.0)")
# per slot: the portions booked for tasks fit inside the seconds marked used, which fit inside the slot
ghost("LedgerAt", ["rs", "s"], "usage(rs, s) <= used(rs, s) and 0 <= used(rs, s) and used(rs, s) <= D(rs)")
ghost("Ledger", ["rs"], "forall(s, LedgerAt(rs, s))")

# local time of slot start: project time + zone offset (zoneinfo trusted: A-tz)
ghost("LT", ["wh", "i", "tz"], "dt(secs(PT(wh.project, i)) + ite(tz is None or some(tz) == '', 0, uf_tzoff(some(tz), secs(PT(wh.project, i)))))")
ghost("LW", ["wh", "i", "tz"], "LT(wh, i, tz).weekday()")
ghost("LM", ["wh", "i", "tz"], "LT(wh, i, tz).hour * 60 + LT(wh, i, tz).minute")


# ---- calendar view --------------------------------------------------------------------------------------------
# project default calendar (Mon-Fri 09-17 outside global vacations), as a predicate on an instant
ghost("InLeaveList", ["lst", "d"],
      "exists(k, 0, len(lst), lst[k].interval is not None and some(lst[k].interval).start <= d and d < some(lst[k].interval).end)")
ghost("DefW", ["p", "d"], "not InLeaveList(p.attributes['vacations'], d) and d.weekday() < 5 and 9 <= d.hour and d.hour < 17")
# what Project.isWorkingTime answers in the current state
ghost("IsWT", ["p", "i"], "ite(p.scoreboard is None, ite(p.attributes['start'] is None, False, DefW(p, PT(p, i))), "
                          "some(p.scoreboard).sb[i] is None)", opaque=Bool)
# functional view of WorkingHours.onShift (proved as WorkingHours.onShift/exact)
ghost("WHOn", ["wh", "i", "tz"],
      "ite(not wh._custom_hours_set, IsWT(wh.project, i), ite(wh.project.attributes['start'] is None, False, "
      "LW(wh, i, tz) in wh._hours and len(wh._hours[LW(wh, i, tz)]) > 0 and Working(wh._hours, LW(wh, i, tz), LM(wh, i, tz))))",
      opaque=Bool)

fields_of("TaskScenario", property=Ref("Task"), project=Ref("Project"), scenarioIdx=Int,
          currentSlotIdx=Opt(Int), doneEffort=Real, doneDuration=Int, doneLength=Int, slotStartOffset=Real,
          _lastBookedResource=Opt(Ref("Resource")), _lastBookedSlot=Opt(Int),
          _selectedResources=Opt(List(Ref("Resource"), region="reslist")), isRunAway=Bool, scheduled=Bool,
          hasDurationSpec=Bool)
ResList = List(Ref("Resource"), region="reslist")      # lists of candidate resources all live in one heap region
T.note_regions(ResList)
attrs(effort=Opt(Real), start=Opt(DT), end=Opt(DT), scheduled=Opt(Bool), forward=Opt(Bool), milestone=Opt(Bool),
      duration=Opt(Real), length=Opt(Real), priority=Opt(Int), pathcriticalness=Opt(Real), seqno=Opt(Int))
# the resource scenario object of resource r in scenario sc
ghost("RSof", ["r", "sc"], "some(some(r.data)[sc])")
ghost("Eff", ["r", "sc"], "ite(attr(r, 'efficiency', sc) is None, 1.0, some(attr(r, 'efficiency', sc)))")

# separation of two resource scenarios' ledgers: different dict objects, and no portion list shared
ghost("RSsep", ["a", "b"],
      "a.slotSecondsUsed != b.slotSecondsUsed and a.slotTaskUsage != b.slotTaskUsage and "
      "forall(s, forall(t, implies(s in a.slotTaskUsage and t in b.slotTaskUsage, a.slotTaskUsage[s] != b.slotTaskUsage[t])))")
ghost("LedgerSame", ["o"], "forall(s, used(o, s) == old(used(o, s)) and usage(o, s) == old(usage(o, s)))")

# ---- task tree ------------------------------------------------------------------------------------------------------
fields_of("TaskSet", _properties=List(Ref("Task")))
fields_of("ResourceSet", _properties=List(Ref("Resource")))
fields_of("Task", children=List(Ref("Task")), adoptees=List(Ref("Task")))
fields_of("Resource", children=List(Ref("Resource")), adoptees=List(Ref("Resource")))
REG.fields["Project.tasks"] = Ref("TaskSet")
REG.fields["Project.resources"] = Ref("ResourceSet")


def _set_iter(cls):
    def hook(ex, lv, st):
        from pyvc.loops import IterDom
        fk = REG.field_key("_properties", cls)
        lst = ex.h.get_field(st, lv.t, fk[0], fk[1])
        return IterDom(ex.h.list_len(st, lst.t, lst.ty), lambda i, st2: ex.h.list_get(st2, lst.ty, lst.t, i), "list")
    return hook


klass("TaskSet", iter=_set_iter("TaskSet"), len="len(self._properties)", backing_list="_properties")
klass("ResourceSet", iter=_set_iter("ResourceSet"), len="len(self._properties)", backing_list="_properties")


def _node_setitem(ex, st, base, idxnode, v, node):
    # node[("attr", scIdx)] = value
    if isinstance(idxnode, ast.Tuple) and len(idxnode.elts) == 2 and not isinstance(idxnode.elts[0], ast.Constant):
        # computed attribute name: a conditional choice between string constants
        kv = ex.ev(idxnode.elts[0], st)
        if kv.ty is not T.Str:
            raise Unsupported("node[...] = v with a non-string attribute key", node)
        sc = ex.ev(idxnode.elts[1], st)
        total = []
        for name, ty in list(REG.attrs.items()):
            cond = z3.simplify(kv.t == T.mk_str(name).t)
            if z3.is_false(cond):
                continue
            try:
                newv = T.coerce(v, ty) if not isinstance(v.ty, T.Opt) or isinstance(ty, T.Opt) else None
            except T.TypeErr:
                newv = None
            if newv is None:
                raise Unsupported(f"computed attribute key may denote '{name}' whose type does not fit the value", node)
            old = ex.h.get_attr(st, base.t, name, sc.t, ty)
            ex.h.set_attr(st, base.t, name, sc.t, ty, T.ite(cond, newv, old))
            total.append(cond)
        ex.oblige(st, "safety", f"attr-key@{getattr(node, 'lineno', 0)}", z3.Or(*total) if total else z3.BoolVal(False), node,
                  "computed attribute name is one of the declared attributes")
        return
    if not (isinstance(idxnode, ast.Tuple) and len(idxnode.elts) == 2 and isinstance(idxnode.elts[0], ast.Constant)):
        raise Unsupported("node[...] = v with a non-literal attribute key", node)
    name = idxnode.elts[0].value
    ty = REG.attrs.get(name)
    if ty is None:
        raise Unsupported(f"attribute '{name}' has no declared type", node)
    sc = ex.ev(idxnode.elts[1], st)
    ex.h.set_attr(st, base.t, name, sc.t, ty, v)


def _node_getitem(ex, st, base, idxnode, node):
    if not (isinstance(idxnode, ast.Tuple) and len(idxnode.elts) == 2 and isinstance(idxnode.elts[0], ast.Constant)):
        raise Unsupported("node[...] with a non-literal attribute key", node)
    name = idxnode.elts[0].value
    ty = REG.attrs.get(name)
    if ty is None:
        raise Unsupported(f"attribute '{name}' has no declared type", node)
    sc = ex.ev(idxnode.elts[1], st)
    return ex.h.get_attr(st, base.t, name, sc.t, ty)


_leaf = ("spec", ["self"], "len(self.children) == 0 and len(self.adoptees) == 0")
klass("Task", setitem=_node_setitem, getitem=_node_getitem, methods={"leaf": _leaf})
klass("Resource", setitem=_node_setitem, getitem=_node_getitem, methods={"leaf": _leaf})
ghost("Leaf", ["n"], "len(n.children) == 0 and len(n.adoptees) == 0")
ghost("Sched", ["t", "sc"], "attr(t, 'scheduled', sc) is not None and some(attr(t, 'scheduled', sc))")
ghost("TStart", ["t", "sc"], "attr(t, 'start', sc)")
ghost("TEnd", ["t", "sc"], "attr(t, 'end', sc)")

# ---- dependencies: a list item is either the predecessor Task itself or a dict with options --------------------
# One record sort "Dep": is_dict tells which; for a plain item the object *is* the task.
fields_of("Dep", is_dict=Bool, d_task=Opt(Ref("Task")), gapduration=Opt(Str), gaplength=Opt(Str),
          maxgapduration=Opt(Str), onstart=Bool, onend=Bool)
attrs(depends=Opt(List(Ref("Dep"))))


def _dep_get(ex, node, st, recv):
    """dep.get(...): dict.get on an options dict, attribute get on a task."""
    a0 = node.args[0]
    if not (isinstance(a0, ast.Constant) and isinstance(a0.value, str)):
        raise Unsupported("dep.get with a non-literal key", node)
    key = a0.value
    r = T.opt_inner(recv)
    if len(node.args) + len(node.keywords) >= 2 and key in REG.attrs and key not in ("task",) and \
            not (len(node.args) == 2 and isinstance(node.args[1], ast.Constant)):
        from pyvc.calls import _attr_get
        return _attr_get(ex, node, st, recv)
    table = {"task": "Dep.d_task", "gapduration": "Dep.gapduration", "gaplength": "Dep.gaplength",
             "maxgapduration": "Dep.maxgapduration", "onstart": "Dep.onstart", "onend": "Dep.onend"}
    if key not in table:
        raise Unsupported(f"dep.get('{key}')", node)
    return ex.h.get_field(st, r.t, table[key], REG.fields[table[key]])


klass("Dep", attrget=True, isinstance={"dict": "self.is_dict"}, hasattr={"task": "False"},
      methods={"get": ("pyfunc", _dep_get)})
# the predecessor task of a dependency item, its gap in seconds, its kind
ghost("DepTask", ["d"], "ite(d.is_dict, d.d_task, d)")

attrs(allocate=Opt(List(Ref("Resource"))), flags=Opt(List(Str)))
fields_of("TaskScenario", _selectedAlternative=Bool)


def anc_axioms_all(cls):
    """Ancestor-chain axioms for every node of class cls."""
    return [
        f"forall(x, 'Ref:{cls}', anc(x, 0) == x.parent)",
        f"forall(x, 'Ref:{cls}', forall(k, implies(k >= 0, ite(anc(x, k) is None, anc(x, k + 1) is None, anc(x, k + 1) == some(anc(x, k)).parent))))",
        f"forall(x, 'Ref:{cls}', forall(k, forall(j, implies(0 <= k and k <= j and anc(x, k) is None, anc(x, j) is None))))",
    ]


ghost("ListsDistinct", ["rs"], "forall(s, forall(t, implies(s != t and s in rs.slotTaskUsage and t in rs.slotTaskUsage, "
                               "rs.slotTaskUsage[s] != rs.slotTaskUsage[t])))")

# every recorded portion is a positive number of seconds that fits the slot
ghost("EntriesFit", ["rs"], "forall(s, implies(s in rs.slotTaskUsage, forall(k, 0, len(rs.slotTaskUsage[s]), "
                            "0 < rs.slotTaskUsage[s][k][1] and rs.slotTaskUsage[s][k][1] <= D(rs))))")

# last slot index of the scheduling horizon: index of the project end
ghost("PIdx", ["p", "d"], "trunc((secs(d) - secs(some(p.attributes['start']))) / p.attributes['scheduleGranularity'])")
ghost("Upper", ["p"], "PIdx(p, some(p.attributes['end']))")
# the project's own slot table is left alone
ghost("PBoardSame", ["p"], "implies(p.scoreboard is not None, len(some(p.scoreboard).sb) == old(len(some(p.scoreboard).sb)) and "
                           "forall(i, some(p.scoreboard).sb[i] == old(some(p.scoreboard).sb[i])))")
