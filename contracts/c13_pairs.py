"""C13: compiled fast paths == pure-Python fallbacks.

Every pair is under the *same* functional contract in both configurations (variant "cy": the Python wrapper with
_USE_CYTHON = True calling the .pyx function through its contract; variant "py": the fallback body). The lemmas
below state the pairwise equality itself as client code run against the two contracts.
"""
from contracts.model import *  # noqa
import contracts.c17_scoreboard as S  # noqa
import contracts.c02_calendar as C  # noqa

SB = "scriptplan/scheduler/scoreboard.py"
PJ = "scriptplan/core/project.py"
WH = "scriptplan/core/working_hours.py"
WCY = "scriptplan/_cython/working_hours_cy.pyx"
I32 = 2147483647

_sb_req = [("wf", "SBwf(sb)"), ("c-horizon", f"sb.size * sb.resolution <= {I32} and sb.resolution <= {I32} and sb.size <= {I32}")]

contract(
    "lemma::pair_Scoreboard_idxToDate", props=["C13"],
    client_src="def lemma(sb, idx, force):\n    a = sb.idxToDate_py(idx, force)\n    b = sb.idxToDate_cy(idx, force)\n    assert a == b\n",
    params={"sb": Ref("Scoreboard"), "idx": Int, "force": Bool},
    requires=_sb_req + [("c-int", f"-{I32} <= idx and idx <= {I32}")],
    calls={"sb.idxToDate_py": ("contract", SB + "::Scoreboard.idxToDate#py"),
           "sb.idxToDate_cy": ("contract", SB + "::Scoreboard.idxToDate#cy")},
    may_raise=["IndexError"],
)
contract(
    "lemma::pair_Scoreboard_dateToIdx", props=["C13"],
    client_src="def lemma(sb, date, force):\n    a = sb.dateToIdx_py(date, force)\n    b = sb.dateToIdx_cy(date, force)\n    assert a == b\n",
    params={"sb": Ref("Scoreboard"), "date": DT, "force": Bool},
    requires=_sb_req + [("usec", "isint((secs(date) - secs(sb.startDate)) * 1000000)"),
                        ("c-range", f"-{I32} <= (secs(date) - secs(sb.startDate)) / sb.resolution and (secs(date) - secs(sb.startDate)) / sb.resolution <= {I32}")],
    calls={"sb.dateToIdx_py": ("contract", SB + "::Scoreboard.dateToIdx#py"),
           "sb.dateToIdx_cy": ("contract", SB + "::Scoreboard.dateToIdx#cy")},
    may_raise=["IndexError"],
)
contract(
    "lemma::pair_Project_idxToDate", props=["C13"],
    client_src="def lemma(p, idx):\n    a = p.idxToDate_py(idx)\n    b = p.idxToDate_cy(idx)\n    assert a == b\n",
    params={"p": Ref("Project"), "idx": Int},
    requires=[("g", "PG(p) >= 1"), ("c-range", f"-{I32} <= idx and idx <= {I32} and PG(p) <= {I32} and -{I32} <= idx * PG(p) and idx * PG(p) <= {I32}")],
    calls={"p.idxToDate_py": ("contract", PJ + "::Project.idxToDate#py"),
           "p.idxToDate_cy": ("contract", PJ + "::Project.idxToDate#cy")},
)
contract(
    "lemma::pair_Project_dateToIdx", props=["C13"],
    client_src="def lemma(p, date):\n    a = p.dateToIdx_py(date)\n    b = p.dateToIdx_cy(date)\n    assert a == b\n",
    params={"p": Ref("Project"), "date": DT},
    requires=[("g", "PG(p) >= 1"),
              ("usec", "implies(p.attributes['start'] is not None, isint((secs(date) - secs(PStart(p))) * 1000000))"),
              ("c-range", f"PG(p) <= {I32} and implies(p.attributes['start'] is not None, -{I32} <= (secs(date) - secs(PStart(p))) / PG(p) and (secs(date) - secs(PStart(p))) / PG(p) <= {I32})")],
    calls={"p.dateToIdx_py": ("contract", PJ + "::Project.dateToIdx#py"),
           "p.dateToIdx_cy": ("contract", PJ + "::Project.dateToIdx#cy")},
)
contract(
    "lemma::pair_WorkingHours_onShift", props=["C13"],
    client_src="def lemma(wh, i, tz):\n    a = wh.onShift_py(i, tz)\n    b = wh.onShift_cy(i, tz)\n    assert a == b\n",
    params={"wh": Ref("WorkingHours"), "i": Int, "tz": Opt(Str)},
    requires=[("g", "PG(wh.project) >= 1"), ("table", "HoursWf(wh._hours)")],
    calls={"wh.onShift_py": ("contract", WH + "::WorkingHours.onShift#py"),
           "wh.onShift_cy": ("contract", WH + "::WorkingHours.onShift#cy")},
    opaque_calendar=True,
)

# get_daily_hours: both sides sum (end - start) minutes; the compiled side returns a C float.
_gdh_inv = [("acc", "-1499 * _i <= total_minutes and total_minutes <= 1499 * _i"),
            ("sum", "total_minutes == uf_minsum(self._hours[weekday], _i)")]
contract(
    WH + "::WorkingHours.get_daily_hours", variant="py", props=["C13"],
    params={"self": Ref("WorkingHours"), "weekday": Int}, ret=Real,
    consts={"_USE_CYTHON": False},
    requires=[("sum0", "implies(weekday in self._hours, uf_minsum(self._hours[weekday], 0) == 0 and "
                       "forall(k, 0, len(self._hours[weekday]), uf_minsum(self._hours[weekday], k + 1) == "
                       "uf_minsum(self._hours[weekday], k) + iv_e(self._hours[weekday][k]) - iv_s(self._hours[weekday][k])))")],
    ensures=[("absent", "implies(weekday not in self._hours, result == 0)"),
             ("hours", "implies(weekday in self._hours, result == uf_minsum(self._hours[weekday], len(self._hours[weekday])) / 60)")],
    loops={0: {"inv": [("sum", "total_minutes == uf_minsum(self._hours[weekday], _i)")]}},
    locals={"total_minutes": Int},
    note="uf_minsum(list, k) = sum of (end - start) minutes of the first k intervals, introduced by its recurrence",
)
