"""C02 / C13 / C14 / C17: calendar predicates and project-level slot<->time conversion.

  scriptplan/core/working_hours.py :: WorkingHours.onShift (cy and py configuration), get_daily_hours
  scriptplan/_cython/working_hours_cy.pyx :: check_working_hours_fast, calculate_daily_hours
  scriptplan/core/project.py :: Project.idxToDate, dateToIdx, scoreboardSize, _isDefaultWorkingTime, isWorkingTime
  scriptplan/_cython/time_utils_cy.pyx :: project_date_to_idx, project_idx_to_date
"""
from contracts.model import *  # noqa

WH = "scriptplan/core/working_hours.py"
WCY = "scriptplan/_cython/working_hours_cy.pyx"
PJ = "scriptplan/core/project.py"
TCY = "scriptplan/_cython/time_utils_cy.pyx"
I32 = 2147483647

# ---------------------------------------------------------------------------------------------------------------
# project-level conversions

contract(
    TCY + "::project_idx_to_date", props=["C17", "C13"], cython=True,
    params={"idx": Int, "start": Opt(DT), "granularity": Int}, ret=Opt(DT),
    requires=[("g", "granularity >= 1"), ("range", f"-{I32} <= idx * granularity and idx * granularity <= {I32}")],
    ensures=[("none", "iff(result is None, start is None)"),
             ("linear", "implies(start is not None, secs(some(result)) == secs(some(start)) + idx * granularity)"),
             ("usec", "implies(start is not None, isint((secs(some(result)) - secs(some(start))) * 1000000))")],
)

contract(
    TCY + "::project_date_to_idx", props=["C17", "C13"], cython=True,
    params={"date": DT, "start": Opt(DT), "granularity": Int}, ret=Int,
    requires=[("g", "granularity >= 1"),
              ("usec", "implies(start is not None, isint((secs(date) - secs(some(start))) * 1000000))"),
              ("range", f"implies(start is not None, -{I32} <= (secs(date) - secs(some(start))) / granularity and "
                        f"(secs(date) - secs(some(start))) / granularity <= {I32})")],
    ensures=[("zero", "implies(start is None, result == 0)"),
             ("trunc", "implies(start is not None, result == trunc((secs(date) - secs(some(start))) / granularity))")],
    static={"hasattr(date - start, 'total_seconds')": True},
)

for _v, _cy in (("py", False), ("cy", True)):
    contract(
        PJ + "::Project.idxToDate", variant=_v, props=["C17", "C13"],
        params={"self": Ref("Project"), "idx": Int}, ret=Opt(DT),
        consts={"_USE_CYTHON": _cy},
        requires=[("g", "PG(self) >= 1")] + ([("c-range", f"-{I32} <= idx and idx <= {I32} and PG(self) <= {I32} and "
                                               f"-{I32} <= idx * PG(self) and idx * PG(self) <= {I32}")] if _cy else []),
        ensures=[("none", "iff(result is None, self.attributes['start'] is None)"),
                 ("linear", "implies(self.attributes['start'] is not None, some(result) == PT(self, idx))"),
                 ("usec", "implies(self.attributes['start'] is not None, isint((secs(some(result)) - secs(PStart(self))) * 1000000))")],
        calls={"project_idx_to_date": ("contract", TCY + "::project_idx_to_date")},
    )
    contract(
        PJ + "::Project.dateToIdx", variant=_v, props=["C17", "C13"],
        params={"self": Ref("Project"), "date": DT, "forceIntoProject": Bool}, ret=Int,
        defaults={"forceIntoProject": True},
        consts={"_USE_CYTHON": _cy},
        requires=[("g", "PG(self) >= 1")] + ([
            ("usec", "implies(self.attributes['start'] is not None, isint((secs(date) - secs(PStart(self))) * 1000000))"),
            ("c-range", f"PG(self) <= {I32} and implies(self.attributes['start'] is not None, "
                        f"-{I32} <= (secs(date) - secs(PStart(self))) / PG(self) and (secs(date) - secs(PStart(self))) / PG(self) <= {I32})")] if _cy else []),
        ensures=[("zero", "implies(self.attributes['start'] is None, result == 0)"),
                 ("trunc", "implies(self.attributes['start'] is not None, result == trunc((secs(date) - secs(PStart(self))) / PG(self)))"),
                 # property: floor-inverse for instants at or after the project start
                 ("floor-inverse", "implies(self.attributes['start'] is not None and PStart(self) <= date, "
                                   "PT(self, result) <= date and date < PT(self, result + 1) and result >= 0)")],
        calls={"project_date_to_idx": ("contract", TCY + "::project_date_to_idx")},
    )
    contract(
        "lemma::project_index_of_time_of_index", variant=_v, props=["C17"],
        client_src="def lemma(p, i):\n    t = p.idxToDate(i)\n    k = p.dateToIdx(t)\n    assert k == i\n",
        params={"p": Ref("Project"), "i": Int},
        requires=[("g", "PG(p) >= 1"), ("start", "p.attributes['start'] is not None"), ("i", "i >= 0")] + (
            [("c-range", f"i <= {I32} and PG(p) <= {I32} and i * PG(p) <= {I32}")] if _cy else []),
        calls={"p.idxToDate": ("contract", PJ + "::Project.idxToDate#" + _v),
               "p.dateToIdx": ("contract", PJ + "::Project.dateToIdx#" + _v)},
    )

# ---------------------------------------------------------------------------------------------------------------
# working hours

_cwf_exact = ("(weekday in hours_dict and exists(k, 0, len(hours_dict[weekday]), in_iv(hours_dict[weekday][k], slot_minutes)))"
              " or (check_cross_midnight and ((weekday + 6) % 7) in hours_dict and "
              "exists(k, 0, len(hours_dict[(weekday + 6) % 7]), in_tail(hours_dict[(weekday + 6) % 7][k], slot_minutes)))")

contract(
    WCY + "::check_working_hours_fast", props=["C02", "C13"], cython=True,
    params={"slot_minutes": Int, "weekday": Int, "hours_dict": Dict(Int, List(Interval)), "check_cross_midnight": Bool},
    ret=Bool,
    requires=[("wd", "0 <= weekday and weekday <= 6"), ("m", "0 <= slot_minutes and slot_minutes < 1440"),
              ("table", "HoursWf(hours_dict)")],
    ensures=[("exact", "result == (" + _cwf_exact + ")")],
    locals={"intervals": List(Interval)},
    replay="workinghours", probes={"minutes": "slot_minutes", "weekday": "weekday", "cross": "check_cross_midnight"},
)

for _v, _cy in (("py", False), ("cy", True)):
    contract(
        WH + "::WorkingHours.onShift", variant=_v, props=["C02", "C13", "C14"],
        params={"self": Ref("WorkingHours"), "slot_idx": Int, "timezone": Opt(Str)}, ret=Bool,
        defaults={"timezone": None},
        consts={"_USE_CYTHON": _cy},
        reveal=["WHOn"],
        requires=[("g", "PG(self.project) >= 1")] + (
            [("table", "HoursWf(self._hours)")] if _cy else []),
        opaque_calendar=True,
        ensures=[("exact", "result == WHOn(self, slot_idx, timezone)"),
                 # C02: a slot reported as on shift starts inside the declared hours (local time)
                 ("sound", "implies(result and self._custom_hours_set, "
                           "Working(self._hours, LW(self, slot_idx, timezone), LM(self, slot_idx, timezone)))")],
        calls={
            "self.project.isWorkingTime": ("spec", ["self", "i"], "IsWT(self, i)"),
            "self.project.idxToDate": ("spec", ["self", "i"], "ite(self.attributes['start'] is None, None, PT(self, i))"),
            "self._convert_to_timezone": ("contract", WH + "::WorkingHours._convert_to_timezone"),
            "check_working_hours_fast": ("contract", WCY + "::check_working_hours_fast"),
        },
        note="_convert_to_timezone is used through its verified contract (zoneinfo itself is external, A-tz); "
             "Project.idxToDate/isWorkingTime are used through their contracts' functional form",
    )

contract(
    WCY + "::calculate_daily_hours", props=["C13"], cython=True,
    params={"intervals": List(Interval)}, ret=Real,
    requires=[("table", "forall(k, 0, len(intervals), 0 <= intervals[k][0][0] and intervals[k][0][0] <= 24 and "
                        "0 <= intervals[k][0][1] and intervals[k][0][1] <= 59 and 0 <= intervals[k][1][0] and "
                        "intervals[k][1][0] <= 24 and 0 <= intervals[k][1][1] and intervals[k][1][1] <= 59)"),
              ("len", "len(intervals) <= 100000")],
    ensures=[],
    loops={0: {"inv": [("acc", "-1499 * _i <= total_minutes and total_minutes <= 1499 * _i")]}},
    locals={"total_minutes": Int},
    note="functional equality with WorkingHours.get_daily_hours is checked by the pair lemma below",
)

# ---- time-zone conversion: the only place where zoneinfo is consulted ----------------------------------------------
# trusted external contracts: ZoneInfo(name) raises exactly for unknown zone names; aware.astimezone(zone) is
# utc + offset(zone, utc instant) -- the offset is a function of the INSTANT, not of the day (A-tz)
fields_of("ZoneInfo", key=Str)
contract("extern::zoneinfo.ZoneInfo", trusted=True, props=["C02"], params={"name": Str}, ret=Ref("ZoneInfo"),
         raises={"Exception": "not uf_tzvalid(name)"},
         ensures=[("same", "result.key == name")],
         note="zoneinfo.ZoneInfo(key): raises (ZoneInfoNotFoundError/ValueError) iff the key is not a known zone")
contract("extern::datetime.astimezone", trusted=True, props=["C02"], params={"self": DT, "tz": Ref("ZoneInfo")}, ret=DT,
         ensures=[("offset", "secs(result) == secs(self) + uf_tzoff(tz.key, secs(self))")],
         note="aware_utc.astimezone(zone): wall-clock reading = utc + utcoffset(zone, instant)")

contract(
    WH + "::WorkingHours._convert_to_timezone", props=["C02", "C14"],
    params={"self": Ref("WorkingHours"), "dt": DT, "timezone_str": Str}, ret=Opt(DT),
    consts={"HAS_ZONEINFO": True, "HAS_PYTZ": False},
    ensures=[("total", "not isnone(result)"),
             ("unified", "secs(some(result)) == secs(dt) + ite(timezone_str == '', 0, uf_tzoff(timezone_str, secs(dt)))"),
             ("utc", "implies(timezone_str == '' or not uf_tzvalid(timezone_str), secs(some(result)) == secs(dt))"),
             # C02: local time of a slot = its own instant + the zone's offset AT THAT INSTANT
             ("exact", "implies(timezone_str != '' and uf_tzvalid(timezone_str), "
                       "secs(some(result)) == secs(dt) + uf_tzoff(timezone_str, secs(dt)))")],
    calls={"zoneinfo.ZoneInfo": ("contract", "extern::zoneinfo.ZoneInfo"),
           "utc_dt.astimezone": ("contract", "extern::datetime.astimezone"),
           "dt_timezone.utc": ("const", 0)},
    assumes=["implies(not uf_tzvalid(timezone_str), uf_tzoff(timezone_str, secs(dt)) == 0)"],
    modifies=[],
    note="the offset function is by convention 0 for names that are not zones; verified for the zoneinfo branch (HAS_ZONEINFO is True on every supported interpreter >= 3.9)",
)
