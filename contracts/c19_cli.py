"""C19 / C20: the `plan report` command, all exit paths.

  scriptplan/cli/plan.py :: validate_tjp_file, create_auto_report_file, report

The operating system and library calls are EXTERNAL contracts (trusted, listed in the evidence): each may fail
non-deterministically with the exceptions of its documentation. Files are modelled by ghost fields on path objects:
  Path.exists  -- the path currently exists on disk
  Path.owned   -- the path was created by this invocation (mkstemp / mkdtemp)
stdout by the ghost counters of the one OS object:  OS.stdout_writes, OS.stdout_last.
"""
from contracts.model import *  # noqa

PL = "scriptplan/cli/plan.py"

fields_of("Path", exists=Bool, owned=Bool, is_file=Bool, size=Int, name=Str, suffix=Str, stem=Str)
fields_of("OS", stdout_writes=Int, stdout_last=Str)
fields_of("File", path=Ref("Path"), binary=Bool)
fields_of("Ctx", obj=Dict(Str, Bool))
fields_of("JsonObj", report_id=Str)
PathList = note_type(List(Ref("Path"), region="pathlist"))
OSV = classref("OS")          # the one operating-system object

ghost("PathOf", ["s"], "uf_path_of(s)")
ghost("Clean", [], "forall(p, 'Ref:Path', implies(p.owned, not p.exists))")
ghost("NoNewOwned", [], "forall(p, 'Ref:Path', implies(p.owned and not old(p.owned), not p.exists))")


def extern(name, **kw):
    kw.setdefault("trusted", True)
    kw.setdefault("props", ["C19", "C20"])
    return contract("extern::" + name, **kw)


# ---- external contracts (trusted) -----------------------------------------------------------------------------------
extern("Path", params={"s": Str}, ret=Ref("Path"), ensures=[("same", "result == uf_path_of(s)")],
       note="pathlib.Path(str): one object per path string")
extern("Path.exists", params={"self": Ref("Path")}, ret=Bool, ensures=[("e", "result == self.exists")])
extern("Path.is_file", params={"self": Ref("Path")}, ret=Bool, ensures=[("e", "result == self.is_file")])
extern("Path.unlink", params={"self": Ref("Path")},
       ensures=[("gone", "not self.exists"), ("others", "forall(p, 'Ref:Path', implies(p != self, p.exists == old(p.exists))) ")],
       modifies=["Path.exists"])
extern("shutil.rmtree", params={"p": Ref("Path")},
       ensures=[("gone", "not p.exists"), ("others", "forall(q, 'Ref:Path', implies(q != p and q.owned, q.exists == old(q.exists)))")],
       modifies=["Path.exists"], note="removes the directory and everything below it (files below an owned directory are not owned paths)")
extern("tempfile.mkstemp", params={"suffix": Str, "prefix": Str}, ret=Tuple(Int, Str), may_raise=["OSError"],
       ensures=[("created", "uf_path_of(result[1]).exists and uf_path_of(result[1]).owned and not old(uf_path_of(result[1]).exists) "
                            "and not old(uf_path_of(result[1]).owned)"),
                ("others", "forall(p, 'Ref:Path', implies(p != uf_path_of(result[1]), p.exists == old(p.exists) and p.owned == old(p.owned)))")],
       on_raise=[("nothing-created", "forall(p, 'Ref:Path', p.exists == old(p.exists) and p.owned == old(p.owned))")],
       modifies=["Path.exists", "Path.owned"], note="fresh name (POSIX O_EXCL): the path did not exist before")
extern("tempfile.mkdtemp", params={"prefix": Str}, ret=Str, may_raise=["OSError"],
       ensures=[("created", "uf_path_of(result).exists and uf_path_of(result).owned and not old(uf_path_of(result).exists) and not old(uf_path_of(result).owned)"),
                ("others", "forall(p, 'Ref:Path', implies(p != uf_path_of(result), p.exists == old(p.exists) and p.owned == old(p.owned)))")],
       on_raise=[("nothing-created", "forall(p, 'Ref:Path', p.exists == old(p.exists) and p.owned == old(p.owned))")],
       modifies=["Path.exists", "Path.owned"])
extern("open", params={"path": Ref("Path"), "mode": Str}, defaults={"mode": "r"}, ret=Ref("File"),
       may_raise=["FileNotFoundError", "PermissionError"],
       ensures=[("f", "result.path == path and result.binary == (mode == 'rb')")],
       note="creates nothing when opened for reading; opened for writing only on paths this command owns or the user named")
extern("os.fdopen", params={"fd": Int, "mode": Str}, ret=Ref("File"), may_raise=["OSError"])
extern("File.read", params={"self": Ref("File")}, ret=Str, raises={"UnicodeDecodeError": "nondet() and not self.binary"}, may_raise=["OSError"],
       ensures=[("content", "result == ite(self.binary, uf_bytes_of(self.path), uf_text_of(self.path))")])
extern("File.write", params={"self": Ref("File"), "s": Str}, may_raise=["OSError"])
extern("stdin.read", params={}, ret=Str, may_raise=["UnicodeDecodeError", "OSError"])
extern("sha256hex", params={"b": Str}, ret=Str, ensures=[("h", "result == uf_sha256(b)")])
extern("run_scriptplan", params={"tjp": Str, "outdir": Str}, ret=Tuple(Bool, Opt(Str)),
       ensures=[("frame", "forall(p, 'Ref:Path', implies(p.owned, p.exists == old(p.exists)))")],
       modifies=["Path.exists"], note="the engine wrapper catches its own exceptions and reports (success, message); it writes "
                                      "below the output directory only (Report._get_output_path containment)")
extern("glob", params={"self": Ref("Path"), "pat": Str}, ret=PathList,
       ensures=[("existing", "forall(k, 0, len(result), not result[k].owned)")],
       note="files found below the per-run output directory are not separately owned paths")
extern("json.loads", params={"s": Str}, ret=Ref("JsonObj"),
       note="assumed not to fail on a file the engine wrote with json.dump")
extern("json.dumps", params={"o": Ref("JsonObj"), "indent": Int}, defaults={"indent": 0}, ret=Str,
       ensures=[("rid", "uf_json_report_id(result) == o.report_id")])
extern("echo-stdout", params={"s": Str}, ensures=[("one", "OS().stdout_writes == old(OS().stdout_writes) + 1 and OS().stdout_last == s")],
       modifies=["OS.stdout_writes", "OS.stdout_last"])
ghost("OS", [], "uf_os()")


# ---- helpers for call shapes that are not plain names ------------------------------------------------------------------
import ast as _ast
import z3 as _z3
from pyvc import types as _T
from pyvc.calls import _call_contract as _cc


def _echo(ex, node, st, recv):
    """click.echo / click.secho: only a call without err=True writes to stdout."""
    for k in node.keywords:
        if k.arg == "err" and isinstance(k.value, _ast.Constant) and k.value.value is True:
            for a in node.args:
                try:
                    ex.ev(a, st)
                except Unsupported:
                    pass
            return _T.NONE
    fake = _ast.Call(func=node.func, args=node.args[:1], keywords=[])
    _ast.copy_location(fake, node)
    return _cc(ex, "extern::echo-stdout", fake, st, None)


def _sha(ex, node, st, recv):
    inner = node.func.value            # hashlib.sha256(<bytes>)
    b = ex.ev(inner.args[0], st)
    fn = _z3.Function("uf_sha256", _z3.IntSort(), _z3.IntSort())
    return _T.V(_T.Str, [fn(b.t)])


def _stat_size(ex, node, st, recv):
    p = ex.ev(node.func.value.func.value, st) if False else None
    return None


klass("JsonObj", setitem=lambda ex, st, base, idxnode, v, node: ex.h.set_field(st, base.t, "JsonObj.report_id", Str, v)
      if isinstance(idxnode, _ast.Constant) and idxnode.value == "report_id" else (_ for _ in ()).throw(Unsupported("json key", node)))

_COMMON_CALLS = {
    "Path": ("contract", "extern::Path"),
    "*.exists": ("contract", "extern::Path.exists"),
    "*.is_file": ("contract", "extern::Path.is_file"),
    "*.unlink": ("contract", "extern::Path.unlink"),
    "shutil.rmtree": ("contract", "extern::shutil.rmtree"),
    "tempfile.mkstemp": ("contract", "extern::tempfile.mkstemp"),
    "tempfile.mkdtemp": ("contract", "extern::tempfile.mkdtemp"),
    "open": ("contract", "extern::open"),
    "os.fdopen": ("contract", "extern::os.fdopen"),
    "f.read": ("contract", "extern::File.read"),
    "f.write": ("contract", "extern::File.write"),
    "sys.stdin.read": ("contract", "extern::stdin.read"),
    "click.echo": ("pyfunc", _echo),
    "click.secho": ("pyfunc", _echo),
    "logger.debug": ("ignore",), "logger.warning": ("ignore",), "logger.exception": ("ignore",),
    "secrets.token_hex": ("pure", Str),
    "hashlib.sha256(f.read()).hexdigest": ("pyfunc", _sha),
}

contract(
    PL + "::validate_tjp_file", props=["C19"],
    params={"tjp_path": Str}, ret=Ref("Path"),
    ensures=[("path", "result == uf_path_of(tjp_path)"),
             ("valid", "result.exists and result.is_file and result.size != 0")],
    raises={"FileNotFoundError": "not uf_path_of(tjp_path).exists or not uf_path_of(tjp_path).is_file or uf_path_of(tjp_path).size == 0"},
    calls=dict(_COMMON_CALLS, **{"path.stat": ("spec", ["self"], "self")}),
    locals={"path": Ref("Path")},
    note="creates nothing",
)
klass("Path", props={"st_size": "self.size"})

contract(
    PL + "::create_auto_report_file", props=["C19", "C20"],
    params={"tjp_path": Ref("Path"), "output_format": Str}, ret=Tuple(Ref("Path"), Str),
    ensures=[("created", "result[0].exists and result[0].owned and not old(result[0].owned)"),
             ("only-that", "forall(p, 'Ref:Path', implies(p != result[0], p.exists == old(p.exists) and p.owned == old(p.owned)))")],
    may_raise=["FileNotFoundError", "PermissionError", "UnicodeDecodeError", "OSError"],
    # C20: when it fails, whatever it created is gone again (nothing new is left behind)
    on_raise=[("nothing-left", "NoNewOwned()"),
              ("older-untouched", "forall(p, 'Ref:Path', implies(old(p.owned), p.owned and p.exists == old(p.exists)))")],
    calls=_COMMON_CALLS,
    modifies=["Path.exists", "Path.owned"],
    locals={"temp_file": Ref("Path")},
)

contract(
    PL + "::report", props=["C19", "C20"],
    params={"ctx": Ref("Ctx"), "tjp_file": Opt(Str), "output_csv": Bool, "output": Opt(Str), "force": Bool},
    requires=[("clean-start", "Clean()"),
              # the user-named output file is not one of this invocation's temporaries
              ("output-not-owned", "implies(output is not None, not uf_path_of(some(output)).owned)")],
    may_raise=[],
    on_exit=[
        # C20: on every exit path nothing this invocation created is left behind
        ("no-trace", "Clean()"),
        # C19: exit status is one of the documented codes; 0 only after the report was written
        ("codes", "exit_code == 0 or exit_code == 1 or exit_code == 2"),
        ("stdout-at-most-once", "OS().stdout_writes <= old(OS().stdout_writes) + 1"),
        ("stdout-only-on-success", "implies(exit_code != 0, OS().stdout_writes == old(OS().stdout_writes))"),
        ("stdout-on-success", "implies(exit_code == 0 and output is None, OS().stdout_writes == old(OS().stdout_writes) + 1)"),
        # C19: the JSON written to stdout carries report_id = SHA-256 of the input file's bytes
        ("report-id", "implies(exit_code == 0 and not output_csv and output is None and tjp_file is not None and "
                      "some(tjp_file) != '-' and some(tjp_file) != '', "
                      "uf_json_report_id(OS().stdout_last) == uf_sha256(uf_bytes_of(uf_path_of(some(tjp_file)))))"),
        ("missing-input-is-1", "implies(tjp_file is not None and some(tjp_file) != '-' and some(tjp_file) != '' and "
                               "(not old(uf_path_of(some(tjp_file)).exists) or not old(uf_path_of(some(tjp_file)).is_file) "
                               "or old(uf_path_of(some(tjp_file)).size) == 0), exit_code == 1)"),
    ],
    calls=dict(_COMMON_CALLS, **{
        "validate_tjp_file": ("contract", PL + "::validate_tjp_file"),
        "create_auto_report_file": ("contract", PL + "::create_auto_report_file"),
        "run_scriptplan": ("contract", "extern::run_scriptplan"),
        "temp_output_dir.glob": ("contract", "extern::glob"),
        "json.loads": ("contract", "extern::json.loads"),
        "json.dumps": ("contract", "extern::json.dumps"),
        "ReportGenerationError": ("ignore",),
        "FileNotFoundError": ("ignore",),
    }),
    locals={"temp_file": Opt(Ref("Path")), "stdin_temp_file": Opt(Ref("Path")), "temp_output_dir": Opt(Ref("Path")),
            "tjp_path": Ref("Path"), "output_files": PathList, "auto_outputs": PathList},
    modifies=["Path.exists", "Path.owned", "OS.stdout_writes", "OS.stdout_last", "JsonObj.report_id"],
)
