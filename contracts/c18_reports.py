"""C18: report renderers.

  scriptplan/report/table_report.py :: ReportTable.to_csv, ReportTable.to_json
"""
from contracts.model import *  # noqa

TR = "scriptplan/report/table_report.py"

fields_of("ReportTableCell", text=Str)
fields_of("ReportTableLine", cells=List(Ref("ReportTableCell")), is_hidden=Bool)
fields_of("ReportTable", header_lines=List(Ref("ReportTableLine")), body_lines=List(Ref("ReportTableLine")),
          footer_lines=List(Ref("ReportTableLine")))
Rows = note_type(List(note_type(List(Str, region="csvrow")), region="csvrows"))
Record = note_type(Dict(Str, Str, region="jsonrec"))
Records = note_type(List(Record, region="jsonrecs"))
Cols = note_type(List(Str, region="jsoncols"))

contract(
    TR + "::ReportTable.to_csv", props=["C18"],
    params={"self": Ref("ReportTable")}, ret=Rows,
    ensures=[
        # one CSV row per table line: headers, then body, then footers
        ("row-count", "len(result) == len(self.header_lines) + len(self.body_lines) + len(self.footer_lines)"),
        # every body row carries exactly the cell texts of its line
        ("body-cells", "forall(k, 0, len(self.body_lines), len(result[len(self.header_lines) + k]) == len(self.body_lines[k].cells) and "
                       "forall(j, 0, len(self.body_lines[k].cells), result[len(self.header_lines) + k][j] == self.body_lines[k].cells[j].text))"),
        ("header-cells", "forall(k, 0, len(self.header_lines), len(result[k]) == len(self.header_lines[k].cells) and "
                         "forall(j, 0, len(self.header_lines[k].cells), result[k][j] == self.header_lines[k].cells[j].text))"),
    ],
    loops={
        0: {"inv": [("n", "len(rows) == _i"),
                    ("cells", "forall(k, 0, _i, len(rows[k]) == len(self.header_lines[k].cells) and "
                              "forall(j, 0, len(self.header_lines[k].cells), rows[k][j] == self.header_lines[k].cells[j].text))")]},
        1: {"inv": [("n", "len(rows) == len(self.header_lines) + _i"),
                    ("header", "forall(k, 0, len(self.header_lines), len(rows[k]) == len(self.header_lines[k].cells) and "
                               "forall(j, 0, len(self.header_lines[k].cells), rows[k][j] == self.header_lines[k].cells[j].text))"),
                    ("cells", "forall(k, 0, _i, len(rows[len(self.header_lines) + k]) == len(self.body_lines[k].cells) and "
                              "forall(j, 0, len(self.body_lines[k].cells), rows[len(self.header_lines) + k][j] == self.body_lines[k].cells[j].text))")]},
        2: {"inv": [("n", "len(rows) == len(self.header_lines) + len(self.body_lines) + _i"),
                    ("header", "forall(k, 0, len(self.header_lines), len(rows[k]) == len(self.header_lines[k].cells) and "
                               "forall(j, 0, len(self.header_lines[k].cells), rows[k][j] == self.header_lines[k].cells[j].text))"),
                    ("cells", "forall(k, 0, len(self.body_lines), len(rows[len(self.header_lines) + k]) == len(self.body_lines[k].cells) and "
                              "forall(j, 0, len(self.body_lines[k].cells), rows[len(self.header_lines) + k][j] == self.body_lines[k].cells[j].text))")]},
    },
    locals={"rows": Rows},
)

JsonDoc = Struct(data=Records, columns=Cols)
# number of visible body lines among the first n
ghost("FirstHeader", ["t"], "uf_first_visible_header(t)")

contract(
    TR + "::ReportTable.to_json", props=["C18"],
    params={"self": Ref("ReportTable")}, ret=JsonDoc,
    requires=[
        # region of validity recorded as known finding D15: column titles are pairwise different (lower-cased) and no
        # line is hidden; outside it JSON and CSV differ (a repeated title collapses into one key, hidden lines are skipped)
        ("first-header-visible", "len(self.header_lines) > 0 and not self.header_lines[0].is_hidden"),
        ("no-hidden-lines", "forall(k, 0, len(self.body_lines), not self.body_lines[k].is_hidden)"),
        ("distinct-titles", "forall(a, 0, len(self.header_lines[0].cells), forall(b, 0, len(self.header_lines[0].cells), "
                            "implies(a != b, uf_lower(self.header_lines[0].cells[a].text) != uf_lower(self.header_lines[0].cells[b].text))))"),
    ],
    ensures=[
        ("columns", "len(result['columns']) == len(self.header_lines[0].cells) and "
                    "forall(j, 0, len(result['columns']), result['columns'][j] == uf_lower(self.header_lines[0].cells[j].text))"),
        # C18: one record per body line, and every cell of the CSV row is the value under its column's key
        ("row-count", "len(result['data']) == len(self.body_lines)"),
        ("same-cells", "forall(k, 0, len(self.body_lines), forall(j, 0, len(self.body_lines[k].cells), "
                       "implies(j < len(self.header_lines[0].cells), "
                       "uf_lower(self.header_lines[0].cells[j].text) in result['data'][k] and "
                       "result['data'][k][uf_lower(self.header_lines[0].cells[j].text)] == self.body_lines[k].cells[j].text)))"),
    ],
    loops={
        1: {"inv": [
            ("n", "len(records) == _i"),
            ("cols", "len(column_names) == len(self.header_lines[0].cells) and "
                     "forall(j, 0, len(column_names), column_names[j] == uf_lower(self.header_lines[0].cells[j].text))"),
            ("cells", "forall(k, 0, _i, forall(j, 0, len(self.body_lines[k].cells), implies(j < len(column_names), "
                      "column_names[j] in records[k] and records[k][column_names[j]] == self.body_lines[k].cells[j].text)))"),
        ]},
        2: {"inv": [
            ("filled", "forall(j, 0, _i, implies(j < len(column_names), column_names[j] in record and "
                       "record[column_names[j]] == line.cells[j].text))"),
        ]},
    },
    locals={"column_names": Cols, "records": Records, "record": Record},
    calls={},
)

# ---------------------------------------------------------------------------------------------
# Cell formatting of dates (C18: "every cell is the scheduled value of that task rendered with the effective time
# format"). TableReport._format_value dispatches on the dynamic type of `value`; the variant under contract is the one
# the date columns (start, end) go through: value is a datetime. The effective format is taken from the property
# statement: the report's own timeFormat, unless that is the default "%Y-%m-%d" and the project declares a timeformat.
# `strftime`, the report attribute lookup `self.a(...)` and the project attribute record are uninterpreted (listed in
# the trusted base); what is proved is *which* format and *which* value reach strftime on every path.
fields_of("ProjAttrs", timeformat=Opt(Str))
fields_of("TableReport", project=Ref("Project"))
_eff = ("ite(uf_report_attr(self, 'timeFormat') == '%Y-%m-%d' and truthy_s(self.project.attributes['timeformat']), "
        "self.project.attributes['timeformat'], uf_report_attr(self, 'timeFormat'))")
ghost("truthy_s", ["s"], "s is not None and some(s) != ''")

contract(
    TR + "::TableReport._format_value", variant="datetime", props=["C18"],
    params={"self": Ref("TableReport"), "value": DT, "column_id": Str}, ret=Str,
    static={"isinstance(value, bool)": False, "isinstance(value, datetime)": True},
    ensures=[
        ("effective-format", f"implies(truthy_s({_eff}), result == uf_strftime(value, some({_eff})))"),
        ("no-format", f"implies(not truthy_s({_eff}), result == uf_str_dt(value))"),
    ],
    calls={"self.a": ("spec", ["self", "name"], "uf_report_attr(self, name)"),
           "value.strftime": ("spec", ["self", "fmt"], "uf_strftime(self, fmt)"),
           "str": ("spec", ["x"], "uf_str_dt(x)")},
    note="strftime/str of a datetime and the report attribute lookup are uninterpreted functions of their arguments",
)

# Cell value lookup: for every column other than the two derived money columns the cell value is the attribute of
# *that* node, in *that* scenario when the column is scenario specific (start, end, effort, ...), else the
# scenario-independent attribute. PropertyTreeNode.get and is_scenario_specific are uninterpreted (trusted base).
fields_of("PropertyNode")
contract(
    TR + "::TableReport._get_cell_value", variant="attribute", props=["C18"],
    params={"self": Ref("TableReport"), "property_node": Ref("PropertyNode"), "column_id": Str, "scenario_idx": Int},
    ret=Ref("Value"),
    requires=[("plain-column", "column_id != 'revenue' and column_id != 'cost'")],
    static={"hasattr(property_node, 'get')": True},
    ensures=[("that-node-that-scenario",
              "result == uf_node_get(property_node, column_id, ite(uf_scen_specific(column_id), scenario_idx, 0 - 1))")],
    calls={"self.is_scenario_specific": ("spec", ["self", "c"], "uf_scen_specific(c)"),
           "property_node.get": ("spec", ["self", "name", "sc"], "uf_node_get(self, name, sc)", {"sc": -1})},
    may_raise=[],
)
