"""C18: report renderers.

  scriptplan/report/table_report.py :: ReportTable.to_csv, ReportTable.to_json
"""
from contracts.model import *  # noqa

TR = "scriptplan/report/table_report.py"

fields_of("ReportTableCell", text=Str)
fields_of("ReportTableLine", cells=List(Ref("ReportTableCell")), is_hidden=Bool)
fields_of("ReportTable", header_lines=List(Ref("ReportTableLine")), body_lines=List(Ref("ReportTableLine")),
          footer_lines=List(Ref("ReportTableLine")))
Rows = note_type(List(note_type(List(Str, region="csvrow")), region="csvrows"))
Record = note_type(Dict(Str, Str, region="jsonrec"))
Records = note_type(List(Record, region="jsonrecs"))
Cols = note_type(List(Str, region="jsoncols"))

contract(
    TR + "::ReportTable.to_csv", props=["C18"],
    params={"self": Ref("ReportTable")}, ret=Rows,
    ensures=[
        # one CSV row per table line: headers, then body, then footers
        ("row-count", "len(result) == len(self.header_lines) + len(self.body_lines) + len(self.footer_lines)"),
        # every body row carries exactly the cell texts of its line
        ("body-cells", "forall(k, 0, len(self.body_lines), len(result[len(self.header_lines) + k]) == len(self.body_lines[k].cells) and "
                       "forall(j, 0, len(self.body_lines[k].cells), result[len(self.header_lines) + k][j] == self.body_lines[k].cells[j].text))"),
        ("header-cells", "forall(k, 0, len(self.header_lines), len(result[k]) == len(self.header_lines[k].cells) and "
                         "forall(j, 0, len(self.header_lines[k].cells), result[k][j] == self.header_lines[k].cells[j].text))"),
    ],
    loops={
        0: {"inv": [("n", "len(rows) == _i"),
                    ("cells", "forall(k, 0, _i, len(rows[k]) == len(self.header_lines[k].cells) and "
                              "forall(j, 0, len(self.header_lines[k].cells), rows[k][j] == self.header_lines[k].cells[j].text))")]},
        1: {"inv": [("n", "len(rows) == len(self.header_lines) + _i"),
                    ("header", "forall(k, 0, len(self.header_lines), len(rows[k]) == len(self.header_lines[k].cells) and "
                               "forall(j, 0, len(self.header_lines[k].cells), rows[k][j] == self.header_lines[k].cells[j].text))"),
                    ("cells", "forall(k, 0, _i, len(rows[len(self.header_lines) + k]) == len(self.body_lines[k].cells) and "
                              "forall(j, 0, len(self.body_lines[k].cells), rows[len(self.header_lines) + k][j] == self.body_lines[k].cells[j].text))")]},
        2: {"inv": [("n", "len(rows) == len(self.header_lines) + len(self.body_lines) + _i"),
                    ("header", "forall(k, 0, len(self.header_lines), len(rows[k]) == len(self.header_lines[k].cells) and "
                               "forall(j, 0, len(self.header_lines[k].cells), rows[k][j] == self.header_lines[k].cells[j].text))"),
                    ("cells", "forall(k, 0, len(self.body_lines), len(rows[len(self.header_lines) + k]) == len(self.body_lines[k].cells) and "
                              "forall(j, 0, len(self.body_lines[k].cells), rows[len(self.header_lines) + k][j] == self.body_lines[k].cells[j].text))")]},
    },
    locals={"rows": Rows},
)

JsonDoc = Struct(data=Records, columns=Cols)
# number of visible body lines among the first n
ghost("FirstHeader", ["t"], "uf_first_visible_header(t)")

contract(
    TR + "::ReportTable.to_json", props=["C18"],
    params={"self": Ref("ReportTable")}, ret=JsonDoc,
    requires=[
        # region of validity recorded as known finding D15: column titles are pairwise different (lower-cased) and no
        # line is hidden; outside it JSON and CSV differ (a repeated title collapses into one key, hidden lines are skipped)
        ("first-header-visible", "len(self.header_lines) > 0 and not self.header_lines[0].is_hidden"),
        ("no-hidden-lines", "forall(k, 0, len(self.body_lines), not self.body_lines[k].is_hidden)"),
        ("distinct-titles", "forall(a, 0, len(self.header_lines[0].cells), forall(b, 0, len(self.header_lines[0].cells), "
                            "implies(a != b, uf_lower(self.header_lines[0].cells[a].text) != uf_lower(self.header_lines[0].cells[b].text))))"),
    ],
    ensures=[
        ("columns", "len(result['columns']) == len(self.header_lines[0].cells) and "
                    "forall(j, 0, len(result['columns']), result['columns'][j] == uf_lower(self.header_lines[0].cells[j].text))"),
        # C18: one record per body line, and every cell of the CSV row is the value under its column's key
        ("row-count", "len(result['data']) == len(self.body_lines)"),
        ("same-cells", "forall(k, 0, len(self.body_lines), forall(j, 0, len(self.body_lines[k].cells), "
                       "implies(j < len(self.header_lines[0].cells), "
                       "uf_lower(self.header_lines[0].cells[j].text) in result['data'][k] and "
                       "result['data'][k][uf_lower(self.header_lines[0].cells[j].text)] == self.body_lines[k].cells[j].text)))"),
    ],
    loops={
        1: {"inv": [
            ("n", "len(records) == _i"),
            ("cols", "len(column_names) == len(self.header_lines[0].cells) and "
                     "forall(j, 0, len(column_names), column_names[j] == uf_lower(self.header_lines[0].cells[j].text))"),
            ("cells", "forall(k, 0, _i, forall(j, 0, len(self.body_lines[k].cells), implies(j < len(column_names), "
                      "column_names[j] in records[k] and records[k][column_names[j]] == self.body_lines[k].cells[j].text)))"),
        ]},
        2: {"inv": [
            ("filled", "forall(j, 0, _i, implies(j < len(column_names), column_names[j] in record and "
                       "record[column_names[j]] == line.cells[j].text))"),
        ]},
    },
    locals={"column_names": Cols, "records": Records, "record": Record},
    calls={},
)
