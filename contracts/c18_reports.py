"""C18: report renderers.

  scriptplan/report/table_report.py :: ReportTable.to_csv, ReportTable.to_json
"""
from contracts.model import *  # noqa

TR = "scriptplan/report/table_report.py"

fields_of("ReportTableCell", text=Str)
fields_of("ReportTableLine", cells=List(Ref("ReportTableCell")), is_hidden=Bool)
fields_of("ReportTable", header_lines=List(Ref("ReportTableLine")), body_lines=List(Ref("ReportTableLine")),
          footer_lines=List(Ref("ReportTableLine")))
Rows = note_type(List(note_type(List(Str, region="csvrow")), region="csvrows"))
Record = note_type(Dict(Str, Str, region="jsonrec"))
Records = note_type(List(Record, region="jsonrecs"))
Cols = note_type(List(Str, region="jsoncols"))

contract(
    TR + "::ReportTable.to_csv", props=["C18"],
    params={"self": Ref("ReportTable")}, ret=Rows,
    ensures=[
        # one CSV row per table line: headers, then body, then footers
        ("row-count", "len(result) == len(self.header_lines) + len(self.body_lines) + len(self.footer_lines)"),
        # every body row carries exactly the cell texts of its line
        ("body-cells", "forall(k, 0, len(self.body_lines), len(result[len(self.header_lines) + k]) == len(self.body_lines[k].cells) and "
                       "forall(j, 0, len(self.body_lines[k].cells), result[len(self.header_lines) + k][j] == self.body_lines[k].cells[j].text))"),
        ("header-cells", "forall(k, 0, len(self.header_lines), len(result[k]) == len(self.header_lines[k].cells) and "
                         "forall(j, 0, len(self.header_lines[k].cells), result[k][j] == self.header_lines[k].cells[j].text))"),
    ],
    loops={
        0: {"inv": [("n", "len(rows) == _i"),
                    ("cells", "forall(k, 0, _i, len(rows[k]) == len(self.header_lines[k].cells) and "
                              "forall(j, 0, len(self.header_lines[k].cells), rows[k][j] == self.header_lines[k].cells[j].text))")]},
        1: {"inv": [("n", "len(rows) == len(self.header_lines) + _i"),
                    ("header", "forall(k, 0, len(self.header_lines), len(rows[k]) == len(self.header_lines[k].cells) and "
                               "forall(j, 0, len(self.header_lines[k].cells), rows[k][j] == self.header_lines[k].cells[j].text))"),
                    ("cells", "forall(k, 0, _i, len(rows[len(self.header_lines) + k]) == len(self.body_lines[k].cells) and "
                              "forall(j, 0, len(self.body_lines[k].cells), rows[len(self.header_lines) + k][j] == self.body_lines[k].cells[j].text))")]},
        2: {"inv": [("n", "len(rows) == len(self.header_lines) + len(self.body_lines) + _i"),
                    ("header", "forall(k, 0, len(self.header_lines), len(rows[k]) == len(self.header_lines[k].cells) and "
                               "forall(j, 0, len(self.header_lines[k].cells), rows[k][j] == self.header_lines[k].cells[j].text))"),
                    ("cells", "forall(k, 0, len(self.body_lines), len(rows[len(self.header_lines) + k]) == len(self.body_lines[k].cells) and "
                              "forall(j, 0, len(self.body_lines[k].cells), rows[len(self.header_lines) + k][j] == self.body_lines[k].cells[j].text))")]},
    },
    locals={"rows": Rows},
)
