#!/venv/bin/python
"""Witness inputs of the OPEN known findings (KNOWN_FINDINGS.json). Each witness is a specific project text run
through the real parser + scheduler of VERIF_REPO; it reports whether the recorded defect still reproduces.

usage: run.py <finding-id> [...]      prints one JSON object {id: {"reproduces": bool, "detail": str}}
"""
import contextlib
import io
import json
import os
import sys
import datetime as dt

ROOT = os.environ.get("VERIF_REPO", "/repo")
sys.path.insert(0, ROOT)
from scriptplan.parser.tjp_parser import ProjectFileParser  # noqa: E402


def run(text):
    buf = io.StringIO()
    with contextlib.redirect_stdout(buf), contextlib.redirect_stderr(buf):
        return ProjectFileParser().parse(text)


def slots(proj, rid, sc=0):
    r = [x for x in proj.resources if x.fullId == rid][0]
    return {proj.idxToDate(s): [(t.fullId, sec) for t, sec in lst] for s, lst in r.data[sc].slotTaskUsage.items()}


def task(proj, fid, sc=0):
    t = [x for x in proj.tasks if x.fullId == fid][0]
    return t.get("start", sc), t.get("end", sc), bool(t.get("scheduled", sc))


HEAD = 'project p "P" 2025-01-06 +2w { timezone "UTC" }\n'


def D2_team_trim():
    """C03/C08: team of two, effort not a multiple of the team's per-slot output: only the last member is trimmed,
    and the successor's start offset is applied in a later slot than the one the predecessor ended in."""
    p = run(HEAD + 'resource r "r" {}\nresource q "q" {}\n'
            'task a "a" { effort 90min allocate r, q }\ntask b "b" { effort 1h allocate r depends a }\n')
    r, q = slots(p, "r"), slots(p, "q")
    ra = sum(s for v in r.values() for t, s in v if t == "a")
    qa = sum(s for v in q.values() for t, s in v if t == "a")
    a, b = task(p, "a"), task(p, "b")
    # property C03: the members of a team are booked for the same instants; C08: b starts when a ends (r should be free)
    bad = abs(ra - qa) > 1 or b[0] != a[1]
    return bad, f"a booked r={ra}s q={qa}s (effort 5400s), a ends {a[1]}, b starts {b[0]}"


def D6_unaligned_hours():
    """C02: working hours that do not fall on slot boundaries: only the slot start is tested."""
    p = run(HEAD + 'resource r "r" { workinghours mon - fri 08:13 - 11:59 }\ntask a "a" { effort 3h allocate r }\n')
    bad = []
    for d, lst in slots(p, "r").items():
        for t, sec in lst:
            end = d + dt.timedelta(seconds=3600)
            lo = d.replace(hour=8, minute=13)
            hi = d.replace(hour=11, minute=59)
            inside = max(0, (min(end, hi) - max(d, lo)).total_seconds())
            if sec > inside + 1:
                bad.append(f"{d}: {sec}s booked, {inside}s of the slot are working time")
    return bool(bad), "; ".join(bad[:3])


def ALAP_shared_end():
    """C06/C08: two ALAP tasks with the same end on one resource: the second reports the shared end although its
    work lies earlier."""
    p = run(HEAD + 'resource r "r" {}\n'
            'task a "a" { effort 90min allocate r end 2025-01-10-17:00 scheduling alap }\n'
            'task b "b" { effort 30min allocate r end 2025-01-10-17:00 scheduling alap }\n')
    s = slots(p, "r")
    out = []
    for fid in ("a", "b"):
        st, en, sch = task(p, fid)
        mine = sorted(d for d, lst in s.items() if any(t == fid for t, _ in lst))
        if mine and sch:
            last = mine[-1] + dt.timedelta(seconds=3600)
            first = mine[0]
            # both tasks cannot truthfully end at 17:00 having worked the full last slot; flag an interval that
            # overlaps the other task's reported interval on the same resource
            out.append((fid, st, en, first, last))
    bad = len(out) == 2 and out[0][1] < out[1][2] and out[1][1] < out[0][2] and \
        sum(sec for lst in s.values() for _, sec in lst) > 0 and _overlap_exceeds(s, out)
    return bad, "; ".join(f"{f}: reported {a}..{b}" for f, a, b, _, _ in out)


def _overlap_exceeds(s, out):
    # reported intervals of two tasks on ONE resource overlap by more time than a single shared slot can explain
    a0, a1, b0, b1 = out[0][1], out[0][2], out[1][1], out[1][2]
    ov = (min(a1, b1) - max(a0, b0)).total_seconds()
    return ov > 3600 - 1


def D10a_month_duration():
    """C14: a project length of '+1m' is a calendar month, so moving the start by 4 weeks changes the horizon length
    and with it an ALAP schedule relative to the start."""
    def rel(start):
        p = run(f'project p "P" {start} +1m {{ timezone "UTC" scheduling alap }}\nresource r "r" {{}}\n'
                'task a "a" { effort 8h allocate r }\n')
        st, en, _ = task(p, "a")
        return st - dt.datetime.strptime(start, "%Y-%m-%d")
    a, b = rel("2025-01-06"), rel("2025-02-03")
    return a != b, f"offset of task start from project start: {a} (start 2025-01-06) vs {b} (start 2025-02-03)"


def D14_horizon_scenario0():
    """C16: the horizon extension looks at scenario 0 efforts only."""
    two = run('project p "P" 2025-01-06 +1w { timezone "UTC" scenario plan "Plan" { scenario big "Big" } }\n'
              'resource r "r" {}\ntask a "a" { effort 8h big:effort 400h allocate r }\n')
    one = run('project p "P" 2025-01-06 +1w { timezone "UTC" }\nresource r "r" {}\ntask a "a" { effort 400h allocate r }\n')
    t2 = task(two, "a", 1)
    t1 = task(one, "a", 0)
    return t1 != t2, f"single-scenario text: {t1}; as scenario 'big' of a two-scenario project: {t2}"


def D15_duplicate_columns():
    """C18: a column listed twice: JSON rows are keyed by title and lose a cell that the CSV keeps."""
    p = run(HEAD + 'resource r "r" {}\ntask a "a" { effort 2h allocate r }\n'
            'taskreport rep "rep" { formats csv, json columns id, start, start }\n')
    rep = list(p.reports)[0]
    if hasattr(rep, "generate_intermediate_format"):
        rep.generate_intermediate_format()
    c = rep.content
    js, cs = c.to_json(), c.to_csv()
    row_js = js["data"][0] if js.get("data") else {}
    return len(row_js) != len(cs[1]), f"CSV row has {len(cs[1])} cells, JSON record has {len(row_js)} keys"


def D17_team_shared_limit():
    """C03 (team atomicity) / C05: team members sharing a task-level limit are booked in different slots."""
    p = run(HEAD + 'resource r "r" {}\nresource q "q" {}\n'
            'task t "t" { effort 4h allocate r, q limits { dailymax 3h } }\n')
    r = sorted(d for d, lst in slots(p, "r").items() if lst)
    q = sorted(d for d, lst in slots(p, "q").items() if lst)
    return r != q, f"r works {[d.strftime('%d-%H') for d in r]}, q works {[d.strftime('%d-%H') for d in q]}"


W = {f.__name__.split("_")[0] if not f.__name__.startswith("ALAP") else "ALAP": f for f in
     (D2_team_trim, D6_unaligned_hours, ALAP_shared_end, D10a_month_duration, D14_horizon_scenario0, D15_duplicate_columns,
      D17_team_shared_limit)}

if __name__ == "__main__":
    out = {}
    for k in sys.argv[1:] or sorted(W):
        try:
            rep, det = W[k]()
            out[k] = {"reproduces": bool(rep), "detail": det}
        except Exception as e:  # noqa
            out[k] = {"reproduces": None, "detail": f"witness crashed: {type(e).__name__}: {e}"}
    print(json.dumps(out, indent=1, default=str))
