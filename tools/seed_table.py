#!/usr/bin/env python3
"""Markdown table: seeded change -> what it needs -> which check catches it (from seeded/*/meta.json, catch.json)."""
import glob, json, os, re
HERE = os.path.dirname(os.path.dirname(os.path.abspath(__file__)))
print("| seed | file / function changed | needs to manifest (short) | own check exit | caught by |")
print("|---|---|---|---|---|")
for d in sorted(glob.glob(os.path.join(HERE, "seeded", "*"))):
    mp, cp = os.path.join(d, "meta.json"), os.path.join(d, "catch.json")
    if not os.path.exists(mp):
        continue
    m = json.load(open(mp))
    c = json.load(open(cp)) if os.path.exists(cp) else {}
    needs = m.get("needs_to_manifest", "")
    needs = re.sub(r"^#+ [^.:]*?manifest\S*\s*", "", needs)
    needs = re.sub(r"^[^:]{0,60}\*\*:?\s*", "", needs)
    needs = re.sub(r"\*\*[^*]*\*\*:?", "", needs).replace("|", "/").strip()[:150]
    seen_o = []
    for o in c.get("obligations", []):
        o = o.replace("obligation: ", "")
        if o not in seen_o:
            seen_o.append(o)
    obl = "; ".join(seen_o[:2])
    by = c.get("caught_by") or ("-" if not c.get("caught") else "?")
    und = " (deductive part UNDECIDED: " + c["undecided"][0].split(": ", 1)[-1][:90] + ")" if c.get("undecided") else ""
    print(f"| {m['seed']} | {', '.join(os.path.basename(f) for f in m['files_changed'])} | {needs} | {c.get('exit')} | {by}: {obl}{und} |")
