#!/bin/bash
# usage: tools/try_universe.sh <patch.diff> <PROP> [seed]  -- bounded universe only, against a scratch copy with the patch applied
D=$(mktemp -d /tmp/tu.XXXXXX)
rsync -a --exclude '__pycache__' --exclude '.git' /repo/ $D/
P=$(readlink -f "$1"); (cd $D && patch -p1 -s --no-backup-if-mismatch < "$P") || { echo "PATCH DOES NOT APPLY"; rm -rf $D; exit 9; }
if grep -q '\.pyx' "$P"; then (cd $D && /venv/bin/python setup.py build_ext --inplace >/dev/null 2>&1); fi
VERIF_REPO=$D VERIF_SEED=${3:-0} /venv/bin/python /verif/bounded/universe.py $2 | tail -1 | python3 -c "
import json,sys; d=json.loads(sys.stdin.read()); print('evaluations', d['bounded_evaluations'], 'failures', len(d['failures']))
for f in d['failures'][:2]: print('  ', f['clause'], f['detail'][:200])"
rm -rf $D
