#!/bin/bash
# usage: tools/universe_matrix.sh [seed...]   -- every kept seeded change against the bounded universe of its own property
# (fast regression check after editing bounded/universe.py; the full matrix incl. the deductive part is tools/run_seeds.sh)
cd /verif
seeds="${@:-0 1}"
for d in seeded/*/; do
  id=$(basename $d); p=${id%%-*}
  case $p in C17|C19|C20) continue;; esac
  for sd in $seeds; do
    r=$(tools/try_universe.sh $d/patch.diff $p $sd 2>&1 | head -2 | tr '\n' ' ')
    echo "$id seed=$sd: $r" | cut -c1-200
  done
done
