#!/usr/bin/env python3
"""Build seeded/<id>/meta.json from the seed's notes.md, my own confirmation run (confirm.json, written by
tools/confirm_seed.sh) and, when present, the result of running the registered checks against it (catch.json, written by
tools/run_seeds.sh)."""
import json, os, re, sys
HERE = os.path.dirname(os.path.dirname(os.path.abspath(__file__)))
for d in sorted(os.listdir(os.path.join(HERE, "seeded"))):
    sd = os.path.join(HERE, "seeded", d)
    if not os.path.isdir(sd) or not os.path.exists(os.path.join(sd, "patch.diff")):
        continue
    notes = open(os.path.join(sd, "notes.md")).read() if os.path.exists(os.path.join(sd, "notes.md")) else ""
    paras = [p.strip().lstrip("-* ").strip() for p in re.split(r"\n\s*\n|\n(?=[-*] )", notes) if p.strip()]

    def find(*keys):
        for i, p in enumerate(paras):
            low = p.lower()
            if any(k in low[:80] for k in keys):
                if p.lstrip().startswith("#") and i + 1 < len(paras):      # a heading: the text is what follows
                    p = p + " " + " ".join(paras[i + 1:i + 4])
                return re.sub(r"\s+", " ", p)[:900]
        return ""
    files = sorted(set(re.findall(r"^\+\+\+ b/(\S+)", open(os.path.join(sd, "patch.diff")).read(), re.M)))
    conf = json.load(open(os.path.join(sd, "confirm.json"))) if os.path.exists(os.path.join(sd, "confirm.json")) else None
    meta = {
        "seed": d,
        "property": d.split("-")[0],
        "files_changed": files,
        "change": find("**change", "change (", "change:"),
        "why_it_breaks_the_property": find("why it breaks", "**why"),
        "needs_to_manifest": find("what is needed", "needed to manifest", "**needed", "what it takes", "circumstances"),
        "written_by": "fresh sub-agent given only the property text and its own scratch worktree of /repo",
        "what_i_ran": (conf or {}).get("ran", "not confirmed"),
        "confirmed_by_me": bool(conf and conf.get("confirmed")),
        "how_to_apply": "git -C /repo apply /verif/seeded/%s/patch.diff ; <run checks> ; git -C /repo checkout -- .   (or tools/try_patch.sh on a scratch copy)" % d,
    }
    cpath = os.path.join(sd, "catch.json")
    if os.path.exists(cpath):
        meta["checks_vs_this_change"] = json.load(open(cpath))
    json.dump(meta, open(os.path.join(sd, "meta.json"), "w"), indent=1)
    print(d, "confirmed" if meta["confirmed_by_me"] else "UNCONFIRMED", "| needs:", (meta["needs_to_manifest"] or "?")[:80])
