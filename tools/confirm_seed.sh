#!/bin/bash
# usage: tools/confirm_seed.sh <seed-dir>   -- confirm a seeded change in a scratch worktree of /repo (removed afterwards)
S=$(readlink -f "$1"); ID=$(basename $S); WT=/tmp/cs_$ID
rm -rf $WT; git -C /repo worktree add -q --detach $WT HEAD || exit 9
cd $WT
/venv/bin/python setup.py build_ext --inplace -q >/dev/null 2>&1; rm -rf build
res="{}"
/venv/bin/python $S/demo.py > $WT/demo_clean.log 2>&1; clean=$?
if ! git apply $S/patch.diff 2>/dev/null; then echo "$ID: PATCH DOES NOT APPLY"; cd /; git -C /repo worktree remove --force $WT; exit 8; fi
if git diff --name-only | grep -q '\.pyx$'; then /venv/bin/python setup.py build_ext --inplace -q >/dev/null 2>&1; rm -rf build; fi
/venv/bin/python -m pytest -q -p no:cacheprovider --timeout=900 -x > $WT/tests.log 2>&1; tests=$?
/venv/bin/python $S/demo.py > $WT/demo_patched.log 2>&1; patched=$?
summary=$(tail -1 $WT/tests.log)
echo "$ID: demo_clean_exit=$clean demo_patched_exit=$patched tests_exit=$tests [$summary]"
python3 - "$S" "$clean" "$patched" "$tests" "$summary" <<'PY'
import json,sys,os
s,clean,patched,tests,summary=sys.argv[1:6]
m={"confirmed": clean=="0" and patched!="0" and tests=="0",
   "ran": {"worktree": "scratch git worktree of /repo HEAD with extensions built in place (removed afterwards)",
           "demo_on_unchanged_exit": int(clean), "demo_with_patch_exit": int(patched), "test_suite_with_patch_exit": int(tests), "test_suite_summary": summary,
           "repo_head": os.popen("git -C /repo rev-parse --short HEAD").read().strip()}}
p=os.path.join(s,"confirm.json"); json.dump(m,open(p,"w"),indent=1)
PY
cd /; git -C /repo worktree remove --force $WT
