#!/bin/bash
# usage: tools/try_patch.sh <patch.diff> <PROP> [PROP...]   -- run registered checks against a scratch copy of /repo with the patch applied
D=$(mktemp -d /tmp/tp.XXXXXX)
rsync -a --exclude '__pycache__' --exclude '*.so' --exclude '.git' /repo/ $D/ 
P=$(readlink -f "$1"); if ! (cd $D && patch -p1 -s --no-backup-if-mismatch < "$P"); then echo "PATCH DOES NOT APPLY"; rm -rf $D; exit 9; fi
shift
for p in "$@"; do
  VERIF_REPO=$D python3-vt /verif/check.py $p | grep -v "^   obligation" | tail -${TAILN:-6}; echo "exit=$? ($p)"
done
rm -rf $D
