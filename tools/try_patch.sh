#!/bin/bash
# usage: tools/try_patch.sh <patch.diff> <PROP> [PROP...]   -- run registered checks against a scratch copy of /repo with the patch applied
D=$(mktemp -d /tmp/tp.XXXXXX)
rsync -a --exclude '__pycache__' --exclude '.git' /repo/ $D/
P=$(readlink -f "$1"); if ! (cd $D && patch -p1 -s --no-backup-if-mismatch < "$P"); then echo "PATCH DOES NOT APPLY"; rm -rf $D; exit 9; fi
# a patch that touches a .pyx needs the extension rebuilt for the native parts (bounded / cross-check / replay)
if grep -q '\.pyx' "$P"; then (cd $D && /venv/bin/python setup.py build_ext --inplace >/dev/null 2>&1) || echo "ext rebuild failed"; fi
shift
for p in "$@"; do
  VERIF_REPO=$D python3-vt /verif/check.py $p > $D/.out 2>&1; rc=$?
  tail -${TAILN:-6} $D/.out; echo "exit=$rc ($p)"
done
rm -rf $D
