#!/usr/bin/env python3
"""Markdown status table from evidence/*.json (what the last run of each check actually covered)."""
import glob, json, os
HERE = os.path.dirname(os.path.dirname(os.path.abspath(__file__)))
print("| id | level | functions under contract | obligations (all discharged) | solver s | native cross-check | bounded stand-ins (evaluations) | open findings confirmed |")
print("|---|---|---|---|---|---|---|---|")
for p in sorted(glob.glob(os.path.join(HERE, "evidence", "C*.json"))):
    e = json.load(open(p))
    c = e["coverage"]
    fns = [f for f in c.get("functions_under_contract", []) if not f.get("trusted")]
    lem = [f for f in fns if f.get("kind") == "lemma"]
    b = "; ".join(f"{x.get('name')}: {x.get('bounded_evaluations')}" for x in c.get("bounded_standins", []))
    kf = len(c.get("known_findings_confirmed", []))
    x = c.get("engine_cross_check", {})
    print(f"| {e['property_id']} | {e['level']} | {len(fns) - len(lem)} functions, {len(lem)} lemmas | {c['discharged']}/{c['obligations']} | "
          f"{c.get('solver_seconds')} | {x.get('evaluations', 0)} evals / {x.get('failures', 0)} failures | {b or '-'} | {kf} |")
