#!/usr/bin/env python3-vt
"""setup_cmd: offline sanity check of the tool chain (nothing is built)."""
import subprocess, sys
import z3
print("z3", z3.get_version_string())
r = subprocess.run(["/usr/bin/cvc5", "--version"], capture_output=True, text=True)
print(r.stdout.splitlines()[0] if r.stdout else "cvc5 missing")
r = subprocess.run(["/venv/bin/python", "-c", "import scriptplan, sys; print('scriptplan at', scriptplan.__file__)"], capture_output=True, text=True)
print(r.stdout.strip() or r.stderr.strip())
sys.exit(0)
