NOTES = ("Contract-based deductive verification of the real code. Fixes made to /repo for genuine defects are "
         "listed in KNOWN_FINDINGS.json (fixed entries) and DESIGN.md section 5.")
NOT_APPLICABLE = {}
_T = "VCs from the real AST + side-car contracts, discharged by z3/cvc5 (pyvc); native replay of counter-models"
TEXT = {
 "C17": {"technique": _T + "; bounded exhaustive enumeration for scan completeness",
         "level_text": "Every obligation of the slot<->time contracts (Scoreboard and Project, Python fallback and Cython path, plus the floor-inverse/monotonicity lemmas) and of the run-scan soundness contracts (loop invariant + assertion contract at the append site) is discharged for all indices, resolutions and windows. Completeness of the scan (every maximal run is reported) is a bounded exhaustive stand-in and is not counted as proved.",
         "level_note": "Python float = real (A-float); C int = mathematical with 32-bit range obligations under stated range preconditions (horizon < 2^31 s); timedelta is whole microseconds; predicate assumed pure. Scan completeness: bounded (all patterns up to length 8/10)."},
 "C13": {"technique": _T + "; pair lemmas over the two configurations",
         "level_text": "Each accelerated function is under the same functional contract in both configurations (wrapper+.pyx through the .pyx contract, and the pure-Python fallback), and pair lemmas prove equality of results/exceptions for all arguments in the 32-bit range. Whole-project equality is the composition (all call sites go through these pairs) and is not proved end to end.",
         "level_note": "C semantics of .pyx encoded by a mechanical pre-pass (cdivision truncating / and %, int32 range obligations, C float as uninterpreted rounding); import-time selection trusted; collectIntervals pair compared by identical site contracts + bounded exhaustive scan; calculate_daily_hours returns a C float (binary32) - equality with the double fallback is not claimed."},
 "C02": {"technique": _T,
         "level_text": "onShift chain proved against a working-time predicate written from the property: WorkingHours.onShift (both configurations) == the interval predicate in local time, ResourceScenario.onShift == vacations/leaves/shift/own hours/default in that order, available => onShift, book(result>0) => onShift. The statement is about the slot START instant; every-second coverage holds only for slot-aligned calendars (known finding).",
         "level_note": "zoneinfo conversion trusted as utc+offset (A-tz); parser->tables outside the engine; per-second clause for unaligned calendars recorded as known finding D6."},
 "C05": {"technique": _T + "; relational (two-run) clauses for period indices",
         "level_text": "Counter kernels proved: period index (calendar day exact; ISO week: same week => same counter, index >= 0), ok == (count < value) for every period of the horizon incl. beyond the sized array, inc counts every booking, Limits.ok/inc over all limits, available => own and every ancestor group's limits ok, book only after those checks. The aggregation 'seconds per period <= count x slot' is a composition argument over these contracts.",
         "level_note": "ISO calendar axioms validated against CPython 1970-2200 on every run; hierarchical counting through the ancestor loop of book is framed but its aggregated postcondition is not carried; task-side limits (limitsOk/incLimits) see C05 task contracts."},
 "C01": {"technique": _T,
         "level_text": "Ledger invariant (per slot: sum of task portions <= seconds used <= slot length) proved preserved by every writer under contract: book (fills exactly the remaining seconds, frame on other slots), the final-slot release, markSlotPartiallyUsed/releasePartialSlot; availability implies room. Induction over operation sequences is the standard invariant argument over these obligations.",
         "level_note": "ghost sum of list portions maintained at append/overwrite (sum lemmas trusted); A-float; ledger writers outside these contracts are excluded by the frame scan."},
}
