#!/bin/bash
# usage: tools/run_seeds.sh [seed-id ...]  -- run each seed's own property check against a scratch copy of /repo with the
# seeded change applied (tools/try_patch.sh); writes seeded/<id>/catch.json. Sequential (verdicts must not depend on load).
cd /verif
ids="$@"; [ -z "$ids" ] && ids=$(ls seeded)
for id in $ids; do
  [ -f seeded/$id/patch.diff ] || continue
  p=${id%%-*}
  out=$(TAILN=40 tools/try_patch.sh seeded/$id/patch.diff $p 2>&1)
  python3 - "$id" "$p" "$out" <<'PY'
import json, re, sys
sid, prop, out = sys.argv[1:4]
rc = re.findall(r"exit=(\d+) \(", out)
viol = re.findall(r"^VIOLATION .*$", out, re.M)
obl = [l.strip() for l in re.findall(r"^\s+obligation: .*$", out, re.M)]
und = re.findall(r"^UNDECIDED .*$", out, re.M)
summ = re.findall(r"^\[.*$", out, re.M)
doc = {"check": prop, "exit": int(rc[-1]) if rc else None, "caught": bool(rc and rc[-1] == "1"),
       "summary": summ[-1] if summ else out[-300:], "violations": viol[:6], "obligations": obl[:6], "undecided": und[:4],
       "caught_by": ("bounded stand-in" if any("bounded:" in o for o in obl) and not any("bounded:" not in o for o in obl)
                     else "contract obligation" if obl else None)}
json.dump(doc, open(f"/verif/seeded/{sid}/catch.json", "w"), indent=1)
print(sid, "exit", doc["exit"], "caught" if doc["caught"] else "MISSED", doc["caught_by"], "|", (obl or und or [""])[0][:140])
PY
done
