#!/usr/bin/env python3-vt
"""Record, for the tree as it is now, which obligations are discharged (per contract, with the source hash of the
function). Run by hand on the unchanged tree after contract changes; the result is committed under baseline/."""
import os, subprocess, sys
HERE = os.path.dirname(os.path.dirname(os.path.abspath(__file__)))
sys.path.insert(0, HERE)
from contracts import index
props = sys.argv[1:] or sorted(index.PROPS)
env = dict(os.environ, VERIF_WRITE_BASELINE="1")
for p in props:
    r = subprocess.run(["python3-vt", os.path.join(HERE, "check.py"), p], env=env, capture_output=True, text=True)
    print(p, "exit", r.returncode, r.stdout.strip().splitlines()[0] if r.stdout.strip() else r.stderr[-300:])
