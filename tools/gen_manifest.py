#!/usr/bin/env python3-vt
"""Regenerate MANIFEST.json from contracts/index.py + tools/manifest_meta.py (texts)."""
import json, sys, os
HERE = os.path.dirname(os.path.dirname(os.path.abspath(__file__)))
sys.path.insert(0, HERE)
from contracts import index
from tools import manifest_meta as M

BOUNDED_NOTE = (" BOUNDED stand-in (not proof): bounded/universe.py evaluates the property statement end to end on 120 (quick) / 1200 (thorough) "
                "seeded small projects plus per-property sub-universes (bound stated in bounded/universe.py and in the evidence); a failure there is a "
                "VIOLATION with the project text as replay; open known findings are re-confirmed by their witness inputs (witnesses/run.py).")
CLI_NOTE = (" BOUNDED stand-in (not proof): bounded/cli_scan.py runs the real 'plan report' entry point as an OS process on an enumerated set "
            "of inputs x channels x formats and failure inputs with a private TMPDIR and working directory (exit status, stdout/stderr separation, "
            "report_id == SHA-256(input bytes), file == stdin bytes, nothing left behind, a concurrent batch equals solitary runs).")
props = [json.loads(l) for l in open(os.path.join(HERE, "properties.jsonl"))]
checks = []
na = []
for p in props:
    pid = p["id"]
    if pid in index.PROPS and pid not in M.NOT_APPLICABLE:
        meta = index.PROPS[pid]
        t = M.TEXT[pid]
        checks.append({
            "property_id": pid,
            "quick_cmd": f"python3-vt check.py {pid} --tier quick",
            "thorough_cmd": f"python3-vt check.py {pid} --tier thorough",
            "evidence_file": f"evidence/{pid}.json",
            "replay_cmd_template": "python3-vt check.py " + pid + " --tier quick   # rewrites {path} from the current tree; the replay file carries the failing input and the native re-run",
            "engine": "pyvc",
            "level_claimed": {"category": meta["level"], "text": t["level_text"], "design_ref": t.get("design_ref", "DESIGN.md section 4")},
            "level_note": t["level_note"] + (BOUNDED_NOTE if any(b["script"] == "universe.py" for b in meta.get("bounded", [])) else "")
            + (CLI_NOTE if any(b["script"] == "cli_scan.py" for b in meta.get("bounded", [])) else ""),
            "technique": t["technique"] + ("; bounded stand-in: the property statement evaluated on the real parser+scheduler over an enumerated universe of small projects (labelled bounded)" if any(b["script"] in ("universe.py", "cli_scan.py") for b in meta.get("bounded", [])) else ""),
        })
    else:
        na.append({"property_id": pid, "reason": M.NOT_APPLICABLE.get(pid, "no check built yet for this property (see DESIGN.md, status table)")})
man = {
    "version": 1,
    "setup_cmd": "python3-vt tools/selfcheck.py",
    "hooks": {"guard": "SCRIPTPLAN_VERIF", "enable": "no source hooks: contracts are side-car files under /verif/contracts, the verifier reads /repo's sources; nothing in /repo is built differently",
              "baseline_off_cmd": "cd /repo && /venv/bin/python -m pytest -ra -q -p no:cacheprovider --timeout=900 --continue-on-collection-errors",
              "source_commits": [], "add_only": True},
    "engines": [{"name": "pyvc", "path": "pyvc/", "serves_properties": [c["property_id"] for c in checks],
                 "kind_free_text": "contract-based deductive verification: verification conditions generated from the Python/Cython AST of the real source on every run (side-car contracts: pre/post/raises/frame/loop invariants/lemmas), discharged by z3 with cvc5 as second back end; counter-models replayed on the real code; bounded stand-ins labelled as such"}],
    "checks": checks,
    "notes": M.NOTES,
    "not_applicable": na,
}
json.dump(man, open(os.path.join(HERE, "MANIFEST.json"), "w"), indent=1)
import jsonschema
jsonschema.validate(man, json.load(open("/root/.vp/MANIFEST.schema.json")))
print("MANIFEST ok:", len(checks), "checks,", len(na), "not applicable")
