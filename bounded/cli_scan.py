#!/venv/bin/python
"""BOUNDED stand-in for C19 / C20 (never counted as proved): the real `plan report` entry point run as an OS process on an
enumerated set of inputs and channels, with a private TMPDIR and a private working directory.

usage: cli_scan.py C19|C20     env: VERIF_REPO, VERIF_TIER, VERIF_SEED

Universe (stated bound): inputs {LF project, CRLF project, project defining its own JSON report, project defining its own
CSV report, project with macros} x channel {file argument, '-' with stdin, stdin without argument} x format {JSON, CSV};
failure inputs {missing path, directory, empty file, empty stdin, whitespace-only stdin, syntax error (file, stdin),
invalid UTF-8 bytes, reference to an unknown resource}; C20 additionally a batch of 6 (quick) / 16 (thorough) concurrent
processes in one directory on the same and on different inputs. Every process runs with cwd = a fresh scratch directory
and TMPDIR = another one; both must be empty afterwards.
"""
import csv
import hashlib
import io
import json
import os
import shutil
import subprocess
import sys
import tempfile

ROOT = os.environ.get("VERIF_REPO", "/repo")
TIER = os.environ.get("VERIF_TIER", "quick")
PLAN = [sys.executable, "-c", f"import sys; sys.path.insert(0, {ROOT!r}); from scriptplan.cli.plan import main; main()"]

BASE = ('project p "P" 2025-01-06 +2w { timezone "UTC" }\nresource r "r" {}\n'
        'task a "a" { effort 5h allocate r }\ntask g "g" {\n  task b "b" { effort 3h allocate r depends a }\n}\n')
INPUTS = {
    "lf": BASE.encode(),
    "crlf": BASE.replace("\n", "\r\n").encode(),
    "own-json": (BASE + 'taskreport aaa_own "aaa_own" { formats json columns name, effort }\n').encode(),
    "own-csv": (BASE + 'taskreport zzz_own "zzz_own" { formats csv columns name }\n').encode(),
    "macro": ('macro eff [effort 5h]\n' + BASE.replace("effort 5h", "${eff}")).encode(),
}
INPUTS_EXTRA = {}
EXPECT_ROWS = {"a": ("2025-01-06-09:00", "2025-01-06-14:00"), "g": ("2025-01-06-14:00", "2025-01-06-17:00"),
               "g.b": ("2025-01-06-14:00", "2025-01-06-17:00")}


def run(args, stdin=None, cwd=None, tmp=None):
    env = dict(os.environ, TMPDIR=tmp, PYTHONDONTWRITEBYTECODE="1")
    p = subprocess.run(PLAN + args, input=stdin if stdin is not None else b"", cwd=cwd, env=env,
                       stdout=subprocess.PIPE, stderr=subprocess.PIPE, timeout=120)
    return p.returncode, p.stdout, p.stderr


def main():
    prop = sys.argv[1]
    fails, evals, nontriv = [], 0, set()
    base = tempfile.mkdtemp(prefix="verif_cli_")
    try:
        data = os.path.join(base, "data")
        os.makedirs(data)
        paths = {}
        for name, b in INPUTS.items():
            paths[name] = os.path.join(data, name + ".tjp")
            open(paths[name], "wb").write(b)
        open(os.path.join(data, "empty.tjp"), "wb").close()
        open(os.path.join(data, "syntax.tjp"), "wb").write(b'project p "P" 2025-01-06 +1w { }\ntask t "T" { effrt 2d }\n')
        open(os.path.join(data, "badutf8.tjp"), "wb").write(b'project p "P" 2025-01-06 +1w { }\n\xff\xfe task\n')
        open(os.path.join(data, "unknownres.tjp"), "wb").write(b'project p "P" 2025-01-06 +1w { }\ntask t "T" { effort 2h allocate nobody }\n')

        def one(label, args, stdin, expect_rc, input_bytes=None, fmt="json"):
            nonlocal evals
            cwd, tmp = tempfile.mkdtemp(dir=base, prefix="cwd_"), tempfile.mkdtemp(dir=base, prefix="tmp_")
            rc, out, err = run(args, stdin, cwd, tmp)
            evals += 1
            nontriv.add(label)
            left_tmp, left_cwd = sorted(os.listdir(tmp)), sorted(os.listdir(cwd))
            if prop == "C20":
                if left_tmp:
                    fails.append({"clause": "C20:left-in-tmpdir", "key": label, "detail": f"{left_tmp}", "input": label})
                if left_cwd:
                    fails.append({"clause": "C20:file-in-cwd", "key": label, "detail": f"{left_cwd}", "input": label})
            if prop == "C19":
                if isinstance(expect_rc, tuple) and rc not in expect_rc or isinstance(expect_rc, int) and rc != expect_rc:
                    fails.append({"clause": "C19:exit-status", "key": label, "detail": f"exit {rc}, expected {expect_rc}; stderr {err[-200:]!r}", "input": label})
                if rc != 0 and out.strip():
                    fails.append({"clause": "C19:stdout-on-failure", "key": label, "detail": f"{out[:120]!r}", "input": label})
                if rc == 0 and input_bytes is not None:
                    if fmt == "json":
                        try:
                            doc = json.loads(out.decode())
                        except Exception as e:  # noqa
                            fails.append({"clause": "C19:stdout-not-json", "key": label, "detail": f"{e}: {out[:120]!r}", "input": label})
                            doc = None
                        if doc is not None:
                            if doc.get("report_id") != hashlib.sha256(input_bytes).hexdigest():
                                fails.append({"clause": "C19:report-id", "key": label, "detail": f"{doc.get('report_id')} != sha256(input)", "input": label})
                            if doc.get("columns") != ["id", "start", "end"]:
                                fails.append({"clause": "C19:columns", "key": label, "detail": f"{doc.get('columns')}", "input": label})
                            rows = {r.get("id"): (r.get("start"), r.get("end")) for r in doc.get("data", [])}
                            if rows != EXPECT_ROWS:
                                fails.append({"clause": "C19:rows", "key": label, "detail": f"{rows}", "input": label})
                    else:
                        rows = list(csv.reader(io.StringIO(out.decode())))
                        got = {r[0]: (r[1], r[2]) for r in rows[1:] if len(r) >= 3}
                        if not rows or [c.lower() for c in rows[0][:3]] != ["id", "start", "end"] or got != EXPECT_ROWS:
                            fails.append({"clause": "C19:csv", "key": label, "detail": f"{rows[:4]}", "input": label})
            shutil.rmtree(cwd, ignore_errors=True)
            shutil.rmtree(tmp, ignore_errors=True)
            return rc, out

        for odd in ("proj.txt", "proj", "PROJ.TJP", "proj.tjp.bak"):
            open(os.path.join(data, odd), "wb").write(INPUTS["lf"])
        for nm in ("../escaped", "../../escaped2", "sub/../../escaped3"):
            key = "own-" + nm.replace("/", "_").replace(".", "")
            INPUTS_EXTRA[key] = (BASE + f'taskreport "{nm}" {{ formats json columns id, start }}\n').encode()
            paths[key] = os.path.join(data, key + ".tjp")
            open(paths[key], "wb").write(INPUTS_EXTRA[key])
        solitary = {}
        for name, b in INPUTS.items():
            for fmt, flag in (("json", []), ("csv", ["--csv"])):
                outs = []
                for ch, args, stdin in (("file", ["--quiet", "report"] + flag + [paths[name]], None),
                                        ("dash", ["--quiet", "report"] + flag + ["-"], b),
                                        ("stdin", ["--quiet", "report"] + flag, b)):
                    rc, out = one(f"{name}/{fmt}/{ch}", args, stdin, 0, b, fmt)
                    outs.append(out)
                solitary[(name, fmt)] = outs[0]
                if prop == "C19" and not (outs[0] == outs[1] == outs[2]):
                    fails.append({"clause": "C19:file-vs-stdin", "key": f"{name}/{fmt}", "detail": "stdout differs between file, '-' and stdin", "input": name})
        # a file argument whose name does not end in '.tjp' (a notice may be printed - on stderr)
        for odd in ("proj.txt", "proj", "PROJ.TJP", "proj.tjp.bak"):
            for fmt, flag in (("json", []), ("csv", ["--csv"])):
                one(f"odd-name/{odd}/{fmt}", ["report"] + flag + [os.path.join(data, odd)], None, 0, INPUTS["lf"], fmt)
        # a project whose own report name tries to climb out of the per-run output directory
        for key, b in INPUTS_EXTRA.items():
            one(f"{key}/json/file", ["--quiet", "report", paths[key]], None, 0, b, "json")
            one(f"{key}/json/stdin", ["--quiet", "report", "-"], b, 0, b, "json")
        # without --quiet the progress lines must go to stderr, not stdout
        one("lf/json/file/verbose", ["--verbose", "report", paths["lf"]], None, 0, INPUTS["lf"], "json")
        one("lf/json/file/default", ["report", paths["lf"]], None, 0, INPUTS["lf"], "json")
        for label, args, stdin, rc in (
                ("missing", ["--quiet", "report", os.path.join(data, "nope.tjp")], None, 1),
                ("directory", ["--quiet", "report", data], None, 1),
                ("empty-file", ["--quiet", "report", os.path.join(data, "empty.tjp")], None, 1),
                ("empty-stdin", ["--quiet", "report", "-"], b"", 1),
                ("blank-stdin", ["--quiet", "report"], b"  \n\n", 1),
                ("syntax-file", ["--quiet", "report", os.path.join(data, "syntax.tjp")], None, 2),
                ("syntax-stdin", ["--quiet", "report", "-"], b'project p "P" 2025-01-06 +1w { }\ntask t "T" { effrt 2d }\n', 2),
                ("bad-utf8", ["--quiet", "report", os.path.join(data, "badutf8.tjp")], None, (1, 2)),
                ("unknown-resource", ["--quiet", "report", os.path.join(data, "unknownres.tjp")], None, (0, 2))):
            one(label, args, stdin, rc)
        if prop == "C20":
            # --output: exactly the requested file appears, nothing else in the working directory is created, changed or removed
            for label, pre, args, expect in (
                    ("output-file", {"results.tmp": b"user data", "notes.txt": b"x"}, ["--quiet", "report", "--output", "results.json", paths["lf"]],
                     {"results.tmp": b"user data", "notes.txt": b"x", "results.json": None}),
                    ("output-csv", {"out.tmp": b"keep"}, ["--quiet", "report", "--csv", "-o", "out.csv", paths["lf"]],
                     {"out.tmp": b"keep", "out.csv": None}),
                    ("output-is-directory", {"reports": None}, ["--quiet", "report", "--force", "-o", "reports", paths["lf"]], {"reports": "dir"})):
                cwd, tmp = tempfile.mkdtemp(dir=base, prefix="ocwd_"), tempfile.mkdtemp(dir=base, prefix="otmp_")
                for nm, content in pre.items():
                    if content is None:
                        os.makedirs(os.path.join(cwd, nm))
                    else:
                        open(os.path.join(cwd, nm), "wb").write(content)
                rc, out, err = run(args, None, cwd, tmp)
                evals += 1
                nontriv.add(label)
                now = {}
                for nm in sorted(os.listdir(cwd)):
                    fp = os.path.join(cwd, nm)
                    now[nm] = "dir" if os.path.isdir(fp) else open(fp, "rb").read()
                bad = [nm for nm in set(now) | set(expect) if (nm not in now) or (nm not in expect) or
                       (expect[nm] is not None and expect[nm] != now[nm])]
                if label == "output-is-directory":
                    bad = [nm for nm in now if nm != "reports"] + ([] if now.get("reports") == "dir" else ["reports"])
                if bad or os.listdir(tmp):
                    fails.append({"clause": "C20:output-side-effects", "key": label, "input": label,
                                  "detail": f"exit {rc}; working directory now {sorted(now)}, unexpected/changed/missing: {sorted(bad)}; TMPDIR {os.listdir(tmp)}"})
            # concurrent batch in ONE working directory with ONE TMPDIR
            n = 6 if TIER == "quick" else 16
            cwd, tmp = tempfile.mkdtemp(dir=base, prefix="ccwd_"), tempfile.mkdtemp(dir=base, prefix="ctmp_")
            env = dict(os.environ, TMPDIR=tmp, PYTHONDONTWRITEBYTECODE="1")
            names = list(INPUTS)
            procs = []
            for i in range(n):
                name = names[i % 3] if i % 2 else names[0]
                use_stdin = i % 3 == 0
                args = ["--quiet", "report"] + (["-"] if use_stdin else [paths[name]])
                p = subprocess.Popen(PLAN + args, stdin=subprocess.PIPE, stdout=subprocess.PIPE, stderr=subprocess.PIPE, cwd=cwd, env=env)
                procs.append((name, p, INPUTS[name] if use_stdin else b""))
            bad = subprocess.Popen(PLAN + ["--quiet", "report", os.path.join(data, "syntax.tjp")], stdin=subprocess.PIPE,
                                   stdout=subprocess.PIPE, stderr=subprocess.PIPE, cwd=cwd, env=env)
            for name, p, inp in procs:
                out, _err = p.communicate(inp, timeout=300)
                evals += 1
                if p.returncode != 0 or out != solitary[(name, "json")]:
                    fails.append({"clause": "C20:concurrent-differs", "key": f"batch/{name}", "detail": f"exit {p.returncode}; output differs from the solitary run", "input": name})
            bad.communicate(b"", timeout=300)
            if os.listdir(tmp) or os.listdir(cwd):
                fails.append({"clause": "C20:left-after-batch", "key": "batch", "detail": f"tmp {os.listdir(tmp)} cwd {os.listdir(cwd)}", "input": "batch"})
            nontriv.add("batch")
    finally:
        shutil.rmtree(base, ignore_errors=True)
    universe = __doc__.split("Universe (stated bound):")[1].strip().replace("\n", " ")
    print(json.dumps({"name": f"cli_scan:{prop}", "label": "bounded", "bounded_universe": universe, "bounded_evaluations": evals,
                      "bounded_distinct_nontrivial": len(nontriv), "exhaustive": False, "failures": fails[:8]}, default=str))
    sys.exit(1 if fails else 0)


main()
