#!/venv/bin/python
"""BOUNDED stand-in for the completeness half of C17's scan clause (never counted as proved).

Exhaustive over: all predicate patterns of length n<=N (N=9 quick, 11 thorough), all windows [a,b] of slot
indices, minimum lengths 1..4 slots, for both implementations that are importable. Reference, written from the
property statement: the maximal runs of the pattern of length >= min, clipped to the window, empty clips dropped.
The final slot of the table (index size-1, which starts at or after the table's end date and so can never be
part of a reported interval) is treated as padding: it does not count towards a run.
"""
import itertools
import json
import os
import sys
import datetime as dt

ROOT = os.environ.get("VERIF_REPO", "/repo")
sys.path.insert(0, ROOT)
import scriptplan.scheduler.scoreboard as S  # noqa: E402
from scriptplan.utils.time import TimeInterval  # noqa: E402

TIER = os.environ.get("VERIF_TIER", "quick")
N = 8 if TIER == "quick" else 10
ORIG = S._USE_CYTHON


def reference(pat, a, b, m):
    n = len(pat)
    eff = list(pat)
    eff[n - 1] = False            # padding slot
    out = []
    i = 0
    while i < n:
        if eff[i]:
            j = i
            while j < n and eff[j]:
                j += 1
            if j - i >= m:
                s, e = max(i, a), min(j, b)
                if s < e:
                    out.append((s, e))
            i = j
        else:
            i += 1
    return out


def main():
    st = dt.datetime(2025, 1, 6)
    res = 3600
    impls = [False] + ([True] if ORIG else [])
    evals = 0
    distinct = set()
    failures = []
    for n in range(2, N + 1):
        sb = S.Scoreboard(st, st + dt.timedelta(seconds=(n - 1) * res), res, None)
        assert sb.size == n
        for bits in itertools.product([False, True], repeat=n):
            for i, v in enumerate(bits):
                sb.sb[i] = 1 if v else None
            for a in range(n):
                for b in range(a, n):
                    iv = TimeInterval(st + dt.timedelta(seconds=a * res), st + dt.timedelta(seconds=b * res))
                    for m in (1, 2, 3, 4):
                        want = reference(bits, a, b, m)
                        for cy in impls:
                            S._USE_CYTHON = cy
                            got = [(int((x.start - st).total_seconds()) // res, int((x.end - st).total_seconds()) // res)
                                   for x in sb.collectIntervals(iv, m * res, lambda v: v is not None)]
                            evals += 1
                            if any(bits):
                                distinct.add((bits, a, b, m))
                            if got != want and len(failures) < 5:
                                failures.append({"clause": "scan-complete", "key": f"{''.join('1' if x else '0' for x in bits)}/{a}-{b}/{m}/{'cy' if cy else 'py'}",
                                                 "input": {"pattern": bits, "window": [a, b], "min_slots": m, "impl": "cy" if cy else "py"},
                                                 "got": got, "want": want})
    S._USE_CYTHON = ORIG
    print(json.dumps({"name": "c17_scan", "label": "bounded", "bounded_universe": f"all patterns of length 2..{N} x all windows x min 1..4 slots x impls {['py'] + (['cy'] if ORIG else [])}",
                      "bounded_evaluations": evals, "bounded_distinct_nontrivial": len(distinct), "exhaustive": True,
                      "failures": failures}))
    sys.exit(1 if failures else 0)


main()
