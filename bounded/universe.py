#!/venv/bin/python
"""BOUNDED stand-ins (never counted as proved): the property statements as run-time checks of the real parser +
scheduler over an enumerated universe of small projects.

usage: universe.py <PROPERTY>     env: VERIF_REPO (default /repo), VERIF_TIER (quick|thorough), VERIF_SEED
prints one JSON document: {"name", "label": "bounded", "bounded_universe", "bounded_evaluations",
                           "bounded_distinct_nontrivial", "failures": [{"clause", "key", "input", ...}]}

Universe (stated bound): 120 (quick) / 1200 (thorough) seeded random projects per property: slots of 1 h (also 30 and
15 min for the single-project properties), UTC, project 2025-01-06 (Mon) + 3 weeks; 1-2 leaf resources (efficiency in
{0.5, 1, 1.5, 2}, optional dailymax, optional leave day, optional own working hours); 2-4 leaf tasks incl. milestones at
a dependency bound, optionally one container; efforts from {1h, 3h, 8h, 13h, 20min, 90min}; priorities {100, 500, 900};
dependency DAGs with optional gapduration {0, 2h}; ASAP (C04/C08/C11 also project-level ALAP). Plus per-property
sub-universes (n/2 .. n/12 projects each): DST zones x 7-day shifts across a transition (C02); two-member teams with
whole-slot efforts and member-restricted task limits, allocations with one or two alternatives (C03); gaplength edges at
three resolutions, also beyond the horizon (C04, C11); group / task / weekly / fractional limits, mid-day and year-end
starts (C05); ALAP teams with different shifts or a busy member, container limits used up by a sibling (C06); implicit
milestone gates in front of a high-priority task (C09); containers with fixed-date milestones / nested packages /
milestone-only plans (C10); a resource on leave for the whole horizon (C11); macro leakage from earlier (also failing)
runs (C12); night shifts and weekday subsets, extensions on vs off (C13); week shifts incl. 53-week years (C14); nested
containers repeating local ids, relative vs absolute references, precedes, comments, macros (C15); scenario-specific
start/effort on a task nested in a dated container (C16); generated .csv/.json files with CSV punctuation in cells,
leaf-only reports over trees repeating local ids (C18). Regions of recorded OPEN findings (KNOWN_FINDINGS.json: team
effort ending mid-slot, teams sharing a limit, ALAP tasks sharing one resource and a slot, unaligned calendars, '+Nm'
project lengths, duplicate report columns) are not generated; portions below 0.5 s are float dust.
"""
import io
import itertools
import json
import os
import random
import sys
import contextlib
import datetime as dt
from collections import defaultdict

ROOT = os.environ.get("VERIF_REPO", "/repo")
sys.path.insert(0, ROOT)
TIER = os.environ.get("VERIF_TIER", "quick")
SEED = int(os.environ.get("VERIF_SEED", "0") or 0)

from scriptplan.parser.tjp_parser import ProjectFileParser  # noqa: E402

START = dt.datetime(2025, 1, 6)
EFFORTS = ["1h", "3h", "8h", "13h", "20min", "90min"]
EFF_H = {"ms": 0.0, "1h": 1.0, "3h": 3.0, "8h": 8.0, "13h": 13.0, "20min": 1 / 3, "90min": 1.5}


# ---------------------------------------------------------------------------------------------------------------
def gen_projects(rng, n, alap=False, limits=True, containers=True, sub_slot=True, start=START, weeks=3, milestones=True, grans=(3600,)):
    """n random small projects as dicts (a dict renders to .tjp text with render())."""
    out = []
    for _ in range(n):
        nres = rng.choice([1, 1, 2])
        res = []
        for i in range(nres):
            r = {"id": f"r{i}", "eff": rng.choice([1.0, 1.0, 0.5, 1.5, 2.0]), "dailymax": rng.choice([None, None, 4]) if limits else None,
                 "leave": rng.choice([None, None, 1, 2]), "hours": rng.choice([None, None, None, (10, 16), (8, 12)])}
            res.append(r)
        ntask = rng.randint(2, 4)
        tasks = []
        for i in range(ntask):
            eff = rng.choice(EFFORTS if sub_slot else EFFORTS[:4])
            deps = []
            for j in range(i):
                if rng.random() < 0.35:
                    deps.append((j, rng.choice([0, 0, 2])))
            if milestones and deps and rng.random() < 0.2:
                eff = "ms"          # a milestone (no effort, no allocation) placed at its dependency bound
            tasks.append({"id": f"t{i}", "effort": eff, "res": rng.choice(res)["id"], "prio": rng.choice([100, 500, 500, 900]),
                          "deps": deps})
        cont = None
        if containers and ntask >= 3 and rng.random() < 0.3:
            cont = (1, 2)           # tasks 1..2 inside a container "g"
        out.append({"res": res, "tasks": tasks, "container": cont, "alap": alap, "start": start, "weeks": weeks,
                    "gran": rng.choice(grans)})
    return out


def tid(p, i):
    c = p["container"]
    return f"g.t{i}" if c and c[0] <= i <= c[1] else f"t{i}"


def dep_ref(p, i, j):
    """absolute reference to task j"""
    return tid(p, j)


def render(p, rename=None, extra_task=None, comments=False, precedes=False, scenario2=False):
    rn = (lambda s: rename.get(s, s)) if rename else (lambda s: s)
    lines = []
    st = p["start"].strftime("%Y-%m-%d")
    gran = p.get("gran", 3600)
    lines.append(f'project prj "P" {st} +{p["weeks"]}w {{ timezone "UTC"' + (" scheduling alap" if p["alap"] else "") +
                 (f" timingresolution {gran // 60}min" if gran != 3600 else "") +
                 (' scenario plan "Plan" { scenario delayed "Delayed" }' if scenario2 else "") + " }")
    if comments:
        lines.append("# a comment line\n/* block\n comment */")
    for r in p["res"]:
        body = []
        if r["eff"] != 1.0:
            body.append(f"efficiency {r['eff']}")
        if r["dailymax"]:
            body.append(f"limits {{ dailymax {r['dailymax']}h }}")
        if r.get("hours"):
            body.append(f"workinghours mon - fri {r['hours'][0]:02d}:00 - {r['hours'][1]:02d}:00")
        if r["leave"] is not None:
            d = (p["start"] + dt.timedelta(days=r["leave"])).strftime("%Y-%m-%d")
            d1 = (p["start"] + dt.timedelta(days=r["leave"] + 1)).strftime("%Y-%m-%d")
            body.append(f"vacation {d} - {d1}")     # (a single-date `vacation D` is an empty interval in scriptplan)
        lines.append(f'resource {rn(r["id"])} "{r["id"]}" {{ ' + " ".join(body) + " }")
    c = p["container"]
    prec = defaultdict(list)     # source -> [(target, gap)]
    if precedes:
        for i, t in enumerate(p["tasks"]):
            for (j, gap) in t["deps"]:
                prec[j].append((i, gap))

    def task_text(i, t, indent=""):
        body = [f"effort {t['effort']}", f"allocate {rn(t['res'])}"] if t["effort"] != "ms" else ["milestone"]
        if t["prio"] != 500:
            body.append(f"priority {t['prio']}")
        if not precedes:
            for (j, gap) in t["deps"]:
                ref = ".".join(rn(x) for x in dep_ref(p, i, j).split("."))
                body.append(f"depends {ref}" + (f" {{ gapduration {gap}h }}" if gap else ""))
        else:
            for (k, gap) in prec.get(i, []):
                ref = ".".join(rn(x) for x in dep_ref(p, i, k).split("."))
                body.append(f"precedes {ref}" + (f" {{ gapduration {gap}h }}" if gap else ""))
        return f'{indent}task {rn(t["id"])} "{t["id"]}" {{ ' + " ".join(body) + " }"

    i = 0
    n = len(p["tasks"])
    while i < n:
        if c and i == c[0]:
            lines.append(f'task {rn("g")} "G" {{')
            for k in range(c[0], c[1] + 1):
                lines.append(task_text(k, p["tasks"][k], "  "))
            lines.append("}")
            i = c[1] + 1
        else:
            lines.append(task_text(i, p["tasks"][i]))
            i += 1
    if extra_task:
        lines.append(extra_task)
    lines.append('taskreport rep "rep" { formats csv columns id, start, end }')
    return "\n".join(lines) + "\n"


def run(text):
    buf = io.StringIO()
    with contextlib.redirect_stdout(buf), contextlib.redirect_stderr(buf):
        proj = ProjectFileParser().parse(text)
    return proj


def dates(proj, sc=0):
    return {t.fullId: (t.get("start", sc), t.get("end", sc), bool(t.get("scheduled", sc))) for t in proj.tasks}


def ledger(proj, sc=0):
    """{resource id: {slot: [(task fullId, seconds)]}}"""
    out = {}
    for r in proj.resources:
        rs = r.data[sc]
        # portions below half a second are floating-point dust of the effort arithmetic (the properties are stated
        # "to within the one-second rounding of reported times"): not counted as bookings
        out[r.fullId] = {s: [(t.fullId, sec) for t, sec in lst if sec >= 0.5] for s, lst in rs.slotTaskUsage.items()}
        out[r.fullId] = {s: lst for s, lst in out[r.fullId].items() if lst}
    return out


def default_working(d, r=None):
    """working time of resource r (own `workinghours mon - fri a:00 - b:00` if declared, else the default 9-17)"""
    a, b = (r or {}).get("hours") or (9, 17)
    return d.weekday() < 5 and a <= d.hour < b


# ---------------------------------------------------------------------------------------------------------------
def check_common(p, proj, fails, key, want):
    """Property predicates evaluated on one scheduled project. `want`: set of property ids to check."""
    D = proj.attributes["scheduleGranularity"]
    led = ledger(proj)
    used_total = {r.fullId: dict(r.data[0].slotSecondsUsed) for r in proj.resources}
    dts = dates(proj)
    res_by = {r["id"]: r for r in p["res"]}
    per_task = defaultdict(list)         # task -> [(res, slot, secs)]
    for rid, slots in led.items():
        for s, lst in slots.items():
            tot = sum(sec for _, sec in lst)
            if "C01" in want and tot > D + 1e-6:
                fails.append({"clause": "C01:slot-sum", "key": key, "detail": f"{rid} slot {s}: {lst}"})
            for tfid, sec in lst:
                per_task[tfid].append((rid, s, sec))
            if "C02" in want:
                d = proj.idxToDate(s)
                r = res_by[rid]
                on_leave = r["leave"] is not None and d.date() == (p["start"] + dt.timedelta(days=r["leave"])).date()
                if not default_working(d, r) or on_leave:
                    fails.append({"clause": "C02:outside-working-time", "key": key, "detail": f"{rid} booked at {d}"})
        if "C05" in want and res_by[rid]["dailymax"]:
            per_day = defaultdict(float)
            for s, lst in slots.items():
                per_day[proj.idxToDate(s).date()] += sum(sec for _, sec in lst)
            for day, secs in per_day.items():
                if secs > res_by[rid]["dailymax"] * 3600 + 1e-6:
                    fails.append({"clause": "C05:dailymax", "key": key, "detail": f"{rid} {day}: {secs / 3600:.2f}h"})
    for i, t in enumerate(p["tasks"]):
        fid = tid(p, i)
        s, e, sch = dts[fid]
        if not sch:
            continue
        ent = per_task.get(fid, [])
        if "C03" in want:
            got = sum(sec * res_by[rid]["eff"] for rid, _, sec in ent) / 3600.0
            if abs(got - EFF_H[t["effort"]]) > 1.0 / 3600 * max(1.0, res_by[t["res"]]["eff"]) + 1e-6:
                fails.append({"clause": "C03:effort", "key": key, "detail": f"{fid}: booked {got:.5f}h of {t['effort']}"})
        if "C06" in want:
            if s is None or e is None or s > e or (EFF_H[t["effort"]] > 0 and not s < e):
                fails.append({"clause": "C06:start-end", "key": key, "detail": f"{fid}: {s} .. {e}"})
            for rid, sl, sec in ent:
                a = proj.idxToDate(sl)
                b = a + dt.timedelta(seconds=D)
                if b <= s or a >= e:
                    fails.append({"clause": "C06:work-outside-interval", "key": key, "detail": f"{fid}: slot {a} vs {s}..{e}"})
                else:
                    # long enough to contain the work booked in the first and the last slot
                    room = (min(b, e) - max(a, s)).total_seconds()
                    if sec > room + 1.0:
                        fails.append({"clause": "C06:interval-too-short", "key": key,
                                      "detail": f"{fid}: {sec:.0f}s booked in slot {a}, only {room:.0f}s of it lie inside {s}..{e}"})
        if "C04" in want and not p["alap"]:
            for (j, gap) in t["deps"]:
                ps, pe, psch = dts[tid(p, j)]
                if psch and s < pe + dt.timedelta(hours=gap):
                    fails.append({"clause": "C04:dependency", "key": key, "detail": f"{fid} starts {s} < {tid(p, j)} end {pe} + {gap}h"})
        if "C04" in want and p["alap"]:
            for (j, gap) in t["deps"]:
                ps, pe, psch = dts[tid(p, j)]
                if psch and s < pe + dt.timedelta(hours=gap):
                    fails.append({"clause": "C04:dependency-alap", "key": key, "detail": f"{fid} starts {s} < {tid(p, j)} end {pe} + {gap}h"})
        if "C11" in want:
            lo, hi = proj.attributes["start"], proj.attributes["end"]
            if not (lo <= s <= e <= hi + dt.timedelta(seconds=D)):
                fails.append({"clause": "C11:outside-horizon", "key": key, "detail": f"{fid}: {s}..{e}"})
    if "C10" in want and p["container"]:
        c = p["container"]
        kids = [dts[tid(p, k)] for k in range(c[0], c[1] + 1)]
        gs, ge, gsch = dts["g"]
        if gsch != all(k[2] for k in kids):
            fails.append({"clause": "C10:scheduled-iff", "key": key, "detail": f"g scheduled={gsch}, children {[k[2] for k in kids]}"})
        if gsch and (gs != min(k[0] for k in kids) or ge != max(k[1] for k in kids)):
            fails.append({"clause": "C10:span", "key": key, "detail": f"g {gs}..{ge} vs children {kids}"})
        for rid, slots in led.items():
            for s_, lst in slots.items():
                if any(tf == "g" for tf, _ in lst):
                    fails.append({"clause": "C10:container-booked", "key": key, "detail": f"{rid} slot {s_}"})
    if "C08" in want and p["alap"]:
        # an ALAP task ends no later than its deadline: the earliest start of the tasks that depend on it, else project end
        for i, t in enumerate(p["tasks"]):
            s_, e_, sch = dts[tid(p, i)]
            if not sch:
                continue
            dl = proj.attributes["end"]
            for k, t2 in enumerate(p["tasks"]):
                if any(j == i for (j, _g) in t2["deps"]) and dts[tid(p, k)][2]:
                    dl = min(dl, dts[tid(p, k)][0])
            if e_ > dl:
                fails.append({"clause": "C08:alap-deadline", "key": key, "detail": f"{tid(p, i)} ends {e_} after its deadline {dl}"})
    if "C08" in want and not p["alap"]:
        # between dependency bound and end every working, unbooked slot of an unlimited resource is used by the task
        for i, t in enumerate(p["tasks"]):
            fid = tid(p, i)
            s, e, sch = dts[fid]
            r = res_by[t["res"]]
            if not sch or r["dailymax"] or t["effort"] == "ms":
                continue
            bound = proj.attributes["start"]
            for (j, gap) in t["deps"]:
                pe = dts[tid(p, j)][1]
                if pe is not None:
                    bound = max(bound, pe + dt.timedelta(hours=gap))
            if bound.minute or bound.second:
                continue           # mid-slot bounds: the start offset rule is a recorded finding
            sl = proj.dateToIdx(bound)
            while proj.idxToDate(sl) + dt.timedelta(seconds=D) <= e:
                d = proj.idxToDate(sl)
                on_leave = r["leave"] is not None and d.date() == (p["start"] + dt.timedelta(days=r["leave"])).date()
                # "unbooked" is judged by the ledger total (it includes the reserved start offset of a successor; the
                # re-applied offset in a later slot is the recorded finding D3 and is not re-reported through this clause)
                used = max(sum(sec for _, sec in led[t["res"]].get(sl, [])), used_total[t["res"]].get(sl, 0.0))
                mine = sum(sec for tf, sec in led[t["res"]].get(sl, []) if tf == fid)
                if default_working(d, r) and not on_leave and used < D - 1e-6 and mine == 0 and d >= bound:
                    fails.append({"clause": "C08:idle-slot", "key": key, "detail": f"{fid}: free working slot {d} between {bound} and {e}"})
                    break
                sl += 1


def reference_schedule(p):
    """Independent list scheduler for the core dialect (efforts that are a whole number of slots at the resource's
    efficiency, slots of the project's resolution, working time by slot start, leaves, dailymax, priorities,
    finish-to-start deps with gapduration, milestones at the bound)."""
    gran = p.get("gran", 3600)
    at = lambda k: p["start"] + dt.timedelta(seconds=k * gran)        # noqa: E731
    horizon = (p["weeks"] * 7 * 24 + 24 * 60) * 3600 // gran
    busy = defaultdict(set)
    perday = defaultdict(lambda: defaultdict(int))
    order = sorted(range(len(p["tasks"])), key=lambda i: (-p["tasks"][i]["prio"], i))
    res_by = {r["id"]: r for r in p["res"]}
    done = {}
    pending = list(order)
    while pending:
        pick = None
        for i in pending:
            if all(j in done for (j, _) in p["tasks"][i]["deps"]):
                pick = i
                break
        if pick is None:
            break
        pending.remove(pick)
        t = p["tasks"][pick]
        r = res_by[t["res"]]
        need = round(EFF_H[t["effort"]] * 3600 / (r["eff"] * gran), 9)
        bound = p["start"]
        for (j, gap) in t["deps"]:
            bound = max(bound, done[j][1] + dt.timedelta(hours=gap))
        if t["effort"] == "ms":
            done[pick] = (bound, bound)
            continue
        k = int((bound - p["start"]).total_seconds() // gran)
        got = 0
        first = last = None
        cap = (r["dailymax"] or 0) * 3600 // gran
        while got < need and k < horizon:
            d = at(k)
            on_leave = r["leave"] is not None and d.date() == (p["start"] + dt.timedelta(days=r["leave"])).date()
            lim_ok = not r["dailymax"] or perday[r["id"]][d.date()] < cap
            if default_working(d, r) and not on_leave and k not in busy[r["id"]] and lim_ok:
                busy[r["id"]].add(k)
                perday[r["id"]][d.date()] += 1
                got += 1
                first = k if first is None else first
                last = k
            k += 1
        done[pick] = (at(first), at(last + 1)) if got >= need else (None, None)
    return {tid(p, i): done.get(i, (None, None)) for i in range(len(p["tasks"]))}


def whole_slot(p):
    res_by = {r["id"]: r for r in p["res"]}
    gran = p.get("gran", 3600)

    def slots(t):
        return round(EFF_H[t["effort"]] * 3600 / (res_by[t["res"]]["eff"] * gran), 9)
    return all(slots(t) == int(slots(t)) for t in p["tasks"])   # (milestones: 0)


def double_edge_subuniverse(prop, rng, n, fails, record):
    """the task and its container both depend on the same predecessor, with different options; the bound is the maximum
    over BOTH edges (C04: every edge honoured; C07: the reference bound)"""
    evals = 0
    for k in range(n // 4):
        e = [rng.choice(["2h", "5h", "13h"]) for _ in range(2)]
        outer = rng.choice(["", " { gapduration 2h }", " { gapduration 5h }"])
        inner = rng.choice(["", " { onstart }", " { gapduration 1h }"])
        text = ('project prj "P" 2025-01-06 +3w { timezone "UTC" }\nresource r "r" {}\nresource q "q" {}\n'
                f'task a "a" {{ effort {e[0]} allocate r }}\n'
                f'task g "g" {{ depends a{outer}\n  task x "x" {{ effort {e[1]} allocate q depends a{inner} }}\n}}\n')
        key = f"{prop}/double/{SEED}/{k}"
        proj = run(text)
        evals += 1
        record(key, text)
        d_ = dates(proj)
        if not all(v[2] for v in d_.values()):
            fails.append({"clause": f"{prop}:feasible-project-unscheduled", "key": key, "input": text, "detail": f"{[f for f, v in d_.items() if not v[2]]}"})
            continue
        gap_o = 2 if "2h" in outer else 5 if "5h" in outer else 0
        b_outer = d_["a"][1] + dt.timedelta(hours=gap_o)
        b_inner = d_["a"][0] if "onstart" in inner else d_["a"][1] + dt.timedelta(hours=1 if "1h" in inner else 0)
        if d_["g.x"][0] < max(b_outer, b_inner):
            fails.append({"clause": f"{prop}:both-edges", "key": key, "input": text,
                          "detail": f"g.x starts {d_['g.x'][0]}; container edge asks for {b_outer}, own edge for {b_inner}"})
    return evals


# ---------------------------------------------------------------------------------------------------------------
def main():
    prop = sys.argv[1]
    rng = random.Random(1000 * SEED + sum(ord(c) for c in prop))
    n = 120 if TIER == "quick" else 1200
    fails = []
    evals = 0
    nontrivial = set()
    universe = __doc__.split("Universe (stated bound):")[1].strip().split("\n\n")[0].replace("\n", " ")
    single = {"C01", "C02", "C03", "C04", "C05", "C06", "C08", "C10", "C11"}

    def record(key, text):
        nontrivial.add(hash(text))

    if prop in single:
        projs = gen_projects(rng, n, grans=(3600, 3600, 1800, 900))
        if prop in ("C04", "C11", "C08"):
            projs += gen_projects(rng, n // 3, alap=True, limits=False, sub_slot=False, milestones=False)
        if prop in ("C01", "C02", "C03", "C05", "C06", "C10"):
            # backward (ALAP) projects, with limits and sub-slot efforts
            projs += gen_projects(rng, n // 3, alap=True, limits=True, sub_slot=True, milestones=False)
        for k, p in enumerate(projs):
            text = render(p)
            key = f"{prop}/{SEED}/{k}"
            try:
                proj = run(text)
            except Exception as e:  # noqa
                fails.append({"clause": f"{prop}:exception" if prop != "C11" else "C11:exception", "key": key,
                              "detail": f"{type(e).__name__}: {e}", "input": text})
                continue
            evals += 1
            record(key, text)
            before = len(fails)
            check_common(p, proj, fails, key, {prop})
            for f in fails[before:]:
                f["input"] = text
        if prop in ("C04", "C11"):
            # gaplength sub-universe: a gap counted in WORKING time of the project calendar, at several resolutions, also
            # larger than the horizon (C11: then the successor is unscheduled with a warning, nothing is raised)
            for k in range(n // 3):
                gran = rng.choice([3600, 1800, 900])
                gap = rng.choice([1, 2, 5, 9, 30, 900])
                e1, e2 = rng.choice(["1h", "3h", "8h", "90min"]), rng.choice(["1h", "3h"])
                text = (f'project prj "P" 2025-01-06 +3w {{ timezone "UTC"' + (f" timingresolution {gran // 60}min" if gran != 3600 else "") + ' }\n'
                        'resource r "r" {}\nresource q "q" {}\n'
                        f'task a "a" {{ effort {e1} allocate r }}\ntask b "b" {{ effort {e2} allocate q depends a {{ gaplength {gap}h }} }}\n')
                key = f"{prop}/gaplength/{SEED}/{k}"
                try:
                    proj = run(text)
                except Exception as e:  # noqa
                    fails.append({"clause": f"{prop}:exception" if prop == "C11" else "C04:exception", "key": key,
                                  "detail": f"{type(e).__name__}: {e}", "input": text})
                    continue
                evals += 1
                record(key, text)
                dts = dates(proj)
                if prop == "C04" and dts["a"][2] and dts["b"][2]:
                    # working seconds (default calendar) between a's end and b's start must cover the gap
                    t_, work = dts["a"][1], 0.0
                    while t_ < dts["b"][0]:
                        step = min(dt.timedelta(seconds=gran - (t_.minute * 60 + t_.second) % gran), dts["b"][0] - t_)
                        if default_working(t_):
                            work += step.total_seconds()
                        t_ += step
                    if work + 1 < gap * 3600:
                        fails.append({"clause": "C04:gaplength", "key": key, "input": text,
                                      "detail": f"b starts {dts['b'][0]}, only {work / 3600:.2f} working hours after a's end {dts['a'][1]} (gaplength {gap}h)"})
        if prop == "C06":
            # ALAP sub-universe (whole-hour efforts; ALAP tasks sharing ONE resource and a slot are the recorded finding):
            # teams whose members have different shifts / one busy member, a container limit used up by a sibling.
            # The reported end lies in the last booked slot, the reported start in the first booked slot.
            for k in range(n // 3):
                e1, e2 = rng.choice([2, 3, 5, 6]), rng.choice([2, 3, 4, 6])
                shape = rng.choice(["shifts", "busy", "container-limit", "alone"])
                head = 'project prj "P" 2025-01-06 +2w { timezone "UTC" }\n'
                if shape == "shifts":
                    body = ('resource r1 "R1" { workinghours mon - fri 09:00 - 17:00 }\nresource r2 "R2" { workinghours mon - fri 09:00 - 13:00 }\n'
                            f'task b "B" {{ scheduling alap end 2025-01-10-17:00 effort {e1}h allocate r1, r2 }}\n')
                elif shape == "busy":
                    body = ('resource r1 "R1" {}\nresource r2 "R2" {}\n'
                            f'task a "A" {{ scheduling alap end 2025-01-10-17:00 effort {e2}h allocate r2 priority 900 }}\n'
                            f'task b "B" {{ scheduling alap end 2025-01-10-17:00 effort {e1}h allocate r1, r2 }}\n')
                elif shape == "container-limit":
                    body = ('resource r1 "R1" {}\nresource r2 "R2" {}\ntask c "C" {\n  limits { dailymax 2h }\n'
                            f'  task a "A" {{ scheduling alap end 2025-01-10-17:00 effort 2h allocate r1 }}\n'
                            f'  task b "B" {{ scheduling alap end 2025-01-10-17:00 effort {e1}h allocate r2 }}\n}}\n')
                else:
                    body = f'resource r1 "R1" {{}}\ntask b "B" {{ scheduling alap end 2025-01-10-17:00 effort {e1 + 6}h allocate r1 }}\n'
                text = head + body
                key = f"C06/alap/{SEED}/{k}"
                proj = run(text)
                evals += 1
                record(key, text)
                led = ledger(proj)
                for t in proj.tasks:
                    if not t.leaf() or not t.get("scheduled", 0):
                        continue
                    mine = sorted({sl for slots in led.values() for sl, lst in slots.items() if any(tf == t.fullId for tf, _ in lst)})
                    if not mine:
                        continue
                    s_, e_ = t.get("start", 0), t.get("end", 0)
                    first_lo, last_lo = proj.idxToDate(mine[0]), proj.idxToDate(mine[-1])
                    if not (first_lo <= s_ < first_lo + dt.timedelta(hours=1)) or not (last_lo < e_ <= last_lo + dt.timedelta(hours=1)):
                        fails.append({"clause": "C06:alap-frame", "key": key, "input": text,
                                      "detail": f"{t.fullId}: reported {s_}..{e_}, first booked slot {first_lo}, last booked slot {last_lo}"})
        if prop == "C04":
            # dated-container sub-universe: a container with its own start; children depend on outside tasks, on each other,
            # on a container; on-start edges. The container's start is a lower bound, every edge is honoured.
            for k in range(n // 3):
                e = [rng.choice(["2h", "5h", "13h", "90min"]) for _ in range(4)]
                gd = START + dt.timedelta(days=rng.choice([0, 1, 3]))
                onstart = rng.random() < 0.3
                opt = " { onstart }" if onstart else rng.choice(["", "", " { gapduration 2h }"])
                on_container = rng.random() < 0.35       # the edge (with its options) is declared on the container and inherited
                alap_ = rng.random() < 0.3
                if alap_:
                    onstart, opt = False, rng.choice(["", " { gapduration 2h }"])
                late_a = rng.random() < 0.4                 # the predecessor is declared last and/or has a lower priority
                a_txt = f'task a "a" {{ effort {e[0]} allocate r' + (" priority 100" if late_a and rng.random() < 0.5 else "") + ' }\n'
                text = ('project prj "P" 2025-01-06 +3w { timezone "UTC"' + (" scheduling alap" if alap_ else "") + ' }\nresource r "r" {}\nresource q "q" {}\n'
                        + ("" if late_a else a_txt) +
                        f'task g "g" {{ ' + ("" if alap_ else f'start {gd.strftime("%Y-%m-%d")}') + (f' depends a{opt}' if on_container else "")
                        + f'\n  task x "x" {{ effort {e[1]} allocate q' + ("" if on_container else f' depends a{opt}') + ' }\n'
                        f'  task y "y" {{ effort {e[2]} allocate q }}\n}}\n'
                        f'task z "z" {{ effort {e[3]} allocate r depends g }}\n' + (a_txt if late_a else ""))
                key = f"C04/dated/{SEED}/{k}"
                proj = run(text)
                evals += 1
                record(key, text)
                d_ = dates(proj)
                if not all(v[2] for v in d_.values()):
                    fails.append({"clause": "C04:feasible-project-unscheduled", "key": key, "input": text,
                                  "detail": f"unscheduled: {[f for f, v in d_.items() if not v[2]]}"})
                if all(v[2] for v in d_.values()):
                    bound = d_["a"][0] if onstart else d_["a"][1] + dt.timedelta(hours=2 if "gapduration" in opt else 0)
                    if d_["g.x"][0] < bound or (on_container and d_["g.y"][0] < bound):
                        fails.append({"clause": "C04:dated-container-child", "key": key, "input": text, "detail": f"g.x/g.y start {d_['g.x'][0]}/{d_['g.y'][0]} before the bound {bound}"})
                    if not alap_ and (d_["g.x"][0] < gd or d_["g.y"][0] < gd):
                        fails.append({"clause": "C04:container-start-bound", "key": key, "input": text, "detail": f"children start {d_['g.x'][0]}, {d_['g.y'][0]} before the container's start {gd}"})
                    if d_["z"][0] < d_["g"][1]:
                        fails.append({"clause": "C04:depends-on-container", "key": key, "input": text, "detail": f"z starts {d_['z'][0]} before g ends {d_['g'][1]}"})
        if prop == "C04":
            evals += double_edge_subuniverse(prop, rng, n, fails, record)
        if prop == "C03":
            # team sub-universe: two members of efficiency 1, whole-slot efforts (a final partial slot is the recorded
            # finding D2), optional task limit restricted to ONE member (a limit shared by the members is finding D17),
            # optional leave day of one member: all members are booked for exactly the same instants
            for k in range(n // 2):
                eff = rng.choice([2, 3, 6, 9, 13])
                lim = rng.choice(["", "", " limits { dailymax 2h { resources r2 } }", " limits { dailymax 3h { resources r1 } }"])
                leave = rng.choice(["", "", " vacation 2025-01-07 - 2025-01-08"])
                other = rng.choice(["", 'task o "o" { effort 5h allocate r2 priority 900 }\n'])
                text = ('project prj "P" 2025-01-06 +3w { timezone "UTC" }\n'
                        f'resource r1 "r1" {{{leave} }}\nresource r2 "r2" {{}}\n' + other +
                        f'task t "t" {{ effort {eff}h allocate r1, r2{lim} }}\n')
                key = f"C03/team/{SEED}/{k}"
                proj = run(text)
                evals += 1
                record(key, text)
                led = ledger(proj)
                mine = {rid: {sl: sum(sec for tf, sec in lst if tf == "t") for sl, lst in slots.items()} for rid, slots in led.items()}
                mine = {rid: {sl: v for sl, v in m.items() if v > 0} for rid, m in mine.items()}
                if dates(proj)["t"][2]:
                    if mine["r1"] != mine["r2"]:
                        fails.append({"clause": "C03:team-same-instants", "key": key, "input": text,
                                      "detail": f"r1 {sorted(mine['r1'].items())[:6]} vs r2 {sorted(mine['r2'].items())[:6]}"})
                    elif abs(sum(mine["r1"].values()) - eff * 3600) > 1:
                        fails.append({"clause": "C03:team-effort", "key": key, "input": text,
                                      "detail": f"each member booked {sum(mine['r1'].values())}s for effort {eff}h"})
        if prop == "C03":
            # alternatives sub-universe: an allocation with alternatives books exactly ONE of the candidates, for the whole effort
            for k in range(n // 3):
                effs = [rng.choice([2, 5, 8, 11]) for _ in range(3)]
                e2 = rng.choice([1.0, 1.0, 0.5, 2.0])
                text = ('project prj "P" 2025-01-06 +3w { timezone "UTC" }\n'
                        f'resource r1 "r1" {{}}\nresource r2 "r2" {{ efficiency {e2} }}\nresource r3 "r3" {{}}\n'
                        f'task a "a" {{ effort {effs[0]}h allocate r1 priority 900 }}\n'
                        f'task b "b" {{ effort {effs[1]}h allocate r1 {{ alternative r2 }} }}\n'
                        f'task c "c" {{ effort {effs[2]}h allocate r2 {{ alternative r3, r1 }} depends a }}\n')
                key = f"C03/alt/{SEED}/{k}"
                proj = run(text)
                evals += 1
                record(key, text)
                led = ledger(proj)
                effmap = {"r1": 1.0, "r2": e2, "r3": 1.0}
                for fid, cands, need in (("b", {"r1", "r2"}, effs[1]), ("c", {"r2", "r3", "r1"}, effs[2])):
                    if not dates(proj)[fid][2]:
                        continue
                    used = {rid: sum(sec for lst in slots.values() for tf, sec in lst if tf == fid) for rid, slots in led.items()}
                    used = {rid: v for rid, v in used.items() if v > 0}
                    if len(used) != 1 or not set(used) <= cands:
                        fails.append({"clause": "C03:one-alternative", "key": key, "input": text, "detail": f"{fid} booked on {used}"})
                    else:
                        rid, secs = next(iter(used.items()))
                        if abs(secs * effmap[rid] / 3600.0 - need) > 2.0 / 3600:
                            fails.append({"clause": "C03:effort", "key": key, "input": text, "detail": f"{fid}: {secs}s on {rid} (eff {effmap[rid]}) for {need}h"})
        if prop == "C05":
            # group / task / weekly limits sub-universe: a limit on a resource group counts the work of all its members, a
            # limit on a task (or container) counts the work of all tasks below it, weekly limits count per ISO week
            for k in range(n // 2):
                glim = rng.choice(["dailymax 5h", "dailymax 3h", "weeklymax 12h", "weeklymax 20h", "dailymax 5.5h", "weeklymax 10.6h"])
                tlim = rng.choice(["", "limits { dailymax 2h }", "limits { weeklymax 6h }", "limits { dailymax 3h }",
                                   "limits { dailymax 2.6h }", "limits { dailymax 3.5h }"])
                res_ = rng.choice(["", "", " timingresolution 30min", " timingresolution 15min"])
                st = rng.choice(["2025-01-06", "2025-01-08", "2025-12-29", "2026-12-28", "2025-01-06-13:00"])
                effs = [rng.choice([3, 8, 13, 20]) for _ in range(3)]
                text = (f'project prj "P" {st} +4w {{ timezone "UTC"{res_} }}\n'
                        f'resource team "T" {{ limits {{ {glim} }}\n  resource r0 "r0" {{}}\n  resource r1 "r1" {{}}\n}}\n'
                        f'task box "B" {{ {tlim}\n  task x "x" {{ effort {effs[0]}h allocate r0 }}\n  task y "y" {{ effort {effs[1]}h allocate r1 }}\n}}\n'
                        f'task z "z" {{ effort {effs[2]}h allocate r0 }}\n')
                key = f"C05/group/{SEED}/{k}"
                proj = run(text)
                evals += 1
                record(key, text)
                led = ledger(proj)

                def periods(entries, weekly):
                    acc = defaultdict(float)
                    for d_, sec in entries:
                        acc[d_.isocalendar()[:2] if weekly else d_.date()] += sec
                    return acc
                team_entries = [(proj.idxToDate(sl), sec) for rid, slots in led.items() for sl, lst in slots.items() for _t, sec in lst]
                box_entries = [(proj.idxToDate(sl), sec) for rid, slots in led.items() for sl, lst in slots.items() for tf, sec in lst if tf.startswith("box.")]
                for what, lim, entries in (("group team", glim, team_entries), ("task box", tlim.replace("limits { ", "").replace(" }", ""), box_entries)):
                    if not lim:
                        continue
                    kind, val = lim.split()
                    cap = float(val.rstrip("h")) * 3600
                    for per, secs in periods(entries, kind == "weeklymax").items():
                        if secs > cap + 1e-6:
                            fails.append({"clause": f"C05:{kind}-{what.split()[0]}", "key": key, "input": text,
                                          "detail": f"{what}: {secs / 3600:.2f}h in {per} against {lim}"})
                            break
        if prop == "C10":
            # second sub-universe: containers whose children include a fixed-date milestone (placed by the pre-pass,
            # not by the slot walk) and nested containers
            for k in range(n // 3):
                d1 = START + dt.timedelta(days=rng.choice([1, 2, 3, 8]))
                eff = rng.choice(["3h", "8h", "13h"])
                nested = rng.random() < 0.5
                inner = (f'  task m "m" {{ milestone start {d1.strftime("%Y-%m-%d")} }}\n'
                         f'  task w "w" {{ effort {eff} allocate r0 }}\n')
                shape = rng.choice(["flat", "inner", "beside", "milestones-only"]) if nested else "flat"
                ms = f'task m "m" {{ milestone start {d1.strftime("%Y-%m-%d")} }}\n'
                if shape == "inner":
                    inner = "  task h \"h\" {\n" + inner + "  }\n" + '  task v "v" { effort 1h allocate r0 }\n'
                elif shape == "beside":       # fixed milestone beside a nested work package
                    inner = ("  " + ms + '  task h "h" {\n' + f'    task w "w" {{ effort {eff} allocate r0 }}\n'
                             '    task x "x" { effort 3h allocate r0 depends !w }\n  }\n')
                elif shape == "milestones-only":
                    inner = ('  task h "h" {\n    ' + ms + f'    task m2 "m2" {{ milestone start {(d1 + dt.timedelta(days=3)).strftime("%Y-%m-%d")} }}\n  }}\n'
                             f'  task m3 "m3" {{ milestone start {(d1 + dt.timedelta(days=5)).strftime("%Y-%m-%d")} }}\n')
                text = ('project prj "P" 2025-01-06 +3w { timezone "UTC" }\nresource r0 "r0" {}\n'
                        'task g "G" {\n' + inner + '}\n')
                key = f"C10/fixed/{SEED}/{k}"
                proj = run(text)
                evals += 1
                record(key, text)
                dts = dates(proj)
                for t in proj.tasks:
                    if t.leaf():
                        continue
                    kids = [dts[c.fullId] for c in t.children]
                    s_, e_, sch = dts[t.fullId]
                    if sch != all(x[2] for x in kids):
                        fails.append({"clause": "C10:scheduled-iff", "key": key, "detail": f"{t.fullId} scheduled={sch}, children {[x[2] for x in kids]}", "input": text})
                    elif sch and (s_ != min(x[0] for x in kids) or e_ != max(x[1] for x in kids)):
                        fails.append({"clause": "C10:span", "key": key, "detail": f"{t.fullId} {s_}..{e_} vs children {kids}", "input": text})
        if prop == "C11":
            # infeasible sub-universe: one resource is on leave for the whole (extended) horizon, so its tasks and
            # everything depending on them cannot be placed: no exception may escape, they stay unscheduled, the
            # independent rest is scheduled inside the horizon
            for k, p in enumerate(gen_projects(rng, n // 3, containers=False, milestones=False)):
                text = render(p).replace('resource r0 "r0" {', 'resource r0 "r0" { vacation 2025-01-01 - 2026-06-01', 1)
                key = f"C11/infeasible/{SEED}/{k}"
                try:
                    proj = run(text)
                except Exception as e:  # noqa
                    fails.append({"clause": "C11:exception", "key": key, "detail": f"{type(e).__name__}: {e}", "input": text})
                    continue
                evals += 1
                record(key, text)
                dts = dates(proj)
                blocked = set()
                for i, t in enumerate(p["tasks"]):
                    if t["res"] == "r0" or any(j in blocked for (j, _g) in t["deps"]):
                        blocked.add(i)
                for i, t in enumerate(p["tasks"]):
                    s_, e_, sch = dts[tid(p, i)]
                    if i in blocked and sch:
                        fails.append({"clause": "C11:blocked-task-scheduled", "key": key, "detail": f"{tid(p, i)}: {s_}..{e_}", "input": text})
                    if i not in blocked and sch and not (proj.attributes["start"] <= s_ <= e_):
                        fails.append({"clause": "C11:outside-horizon", "key": key, "detail": f"{tid(p, i)}: {s_}..{e_}", "input": text})
        if prop == "C11":
            # containers with a child that cannot be placed and keeps only one of its dates (an ALAP child with a deadline whose
            # effort does not fit; an ASAP child in an ALAP container that runs out of the horizon)
            for k in range(n // 6):
                shape = rng.choice(["alap-child", "asap-child-in-alap"])
                if shape == "alap-child":
                    text = ('project prj "P" 2025-01-06 +2w { timezone "UTC" }\nresource r "r" {}\nresource q "q" {}\n'
                            'task g "g" {\n  task ok "ok" { effort 5h allocate q }\n'
                            f'  task late "late" {{ scheduling alap end 2025-01-0{rng.choice([6, 7])}-1{rng.choice([0, 2])}:00 effort {rng.choice([30, 60])}h allocate r }}\n}}\n')
                else:
                    text = ('project prj "P" 2025-01-06 +1w { timezone "UTC" scheduling alap }\nresource r "r" { limits { dailymax 1h } }\nresource q "q" {}\n'
                            'task g "g" {\n  task ok "ok" { effort 5h allocate q }\n'
                            f'  task slow "slow" {{ scheduling asap effort {rng.choice([30, 60])}h allocate r }}\n}}\n')
                key = f"C11/partial/{SEED}/{k}"
                try:
                    proj = run(text)
                    evals += 1
                    record(key, text)
                except Exception as e:  # noqa
                    fails.append({"clause": "C11:exception", "key": key, "detail": f"{type(e).__name__}: {e}", "input": text})
        if prop == "C02":
            # third sub-universe: several GLOBAL vacations declared in arbitrary order, resources working their own hours or a
            # shift (for these the global vacations are checked in ResourceScenario.onShift only)
            for k in range(n // 3):
                days = rng.sample(range(1, 12), 3)
                # (global time off is declared either as `vacation` or as `leaves <type>`)
                vac = "".join((f'vacation "H{i}" ' if rng.random() < 0.5 else f'leaves {rng.choice(["holiday", "annual", "special"])} "H{i}" ')
                              + f'{(START + dt.timedelta(days=d)).strftime("%Y-%m-%d")} - {(START + dt.timedelta(days=d + 1)).strftime("%Y-%m-%d")}\n'
                              for i, d in enumerate(days))
                kind = rng.choice(["own", "shift", "default"])
                rdef = {"own": 'resource r "r" { workinghours mon - fri 08:00 - 16:00 }\n',
                        "shift": 'shift s1 "S" { workinghours mon - fri 08:00 - 16:00 }\nresource r "r" { workinghours s1 }\n',
                        "default": 'resource r "r" {}\n'}[kind]
                text = ('project prj "P" 2025-01-06 +4w { timezone "UTC" }\n' + vac + rdef +
                        f'task a "a" {{ effort {rng.choice([30, 50, 70])}h allocate r }}\n')
                key = f"C02/vac/{SEED}/{k}"
                proj = run(text)
                evals += 1
                record(key, text)
                off = {(START + dt.timedelta(days=d)).date() for d in days}
                lo, hi = (9, 17) if kind == "default" else (8, 16)
                for rid, slots in ledger(proj).items():
                    for sl in slots:
                        d_ = proj.idxToDate(sl)
                        if d_.date() in off or d_.weekday() >= 5 or not (lo <= d_.hour < hi):
                            fails.append({"clause": "C02:global-vacation", "key": key, "input": text, "detail": f"{rid} booked at {d_} (vacation days {sorted(off)})"})
                            break
            # second sub-universe: resources in DST-observing zones working a 7-day shift across a transition
            import zoneinfo
            zones = [("Europe/London", "2025-03-24"), ("Europe/London", "2025-10-20"), ("America/New_York", "2025-03-03"),
                     ("America/New_York", "2025-10-27"), ("Australia/Sydney", "2025-09-29"), ("Asia/Tokyo", "2025-03-24"),
                     ("Europe/Berlin", "2026-03-23"), ("America/Los_Angeles", "2026-11-26")]
            shifts = [[(9, 17)], [(8, 12), (13, 17)], [(6, 12)]]
            for zi, (zone, pstart) in enumerate(zones if TIER != "quick" else zones[:5]):
                for hi, hrs in enumerate(shifts if TIER != "quick" else shifts[:2]):
                    htxt = ", ".join(f"{a:02d}:00 - {b:02d}:00" for a, b in hrs)
                    text = (f'project prj "dst" {pstart} +3w {{ timezone "Etc/UTC" }}\n'
                            f'shift allweek "All week" {{ workinghours mon - sun {htxt} }}\n'
                            f'resource r "R" {{ timezone "{zone}" workinghours allweek }}\n'
                            f'task t "T" {{ effort 90h allocate r }}\n')
                    key = f"C02/tz/{zi}/{hi}"
                    proj = run(text)
                    evals += 1
                    record(key, text)
                    z = zoneinfo.ZoneInfo(zone)
                    for rid, slots in ledger(proj).items():
                        for sl in slots:
                            loc = proj.idxToDate(sl).replace(tzinfo=dt.timezone.utc).astimezone(z)
                            if not any(a <= loc.hour < b for a, b in hrs):
                                fails.append({"clause": "C02:outside-local-shift", "key": key, "input": text,
                                              "detail": f"{rid} booked {proj.idxToDate(sl)} UTC = {loc} local, shift {htxt}"})
                                break
    elif prop in ("C07",):
        projs = [p for p in gen_projects(rng, n * 3, containers=False, sub_slot=True, grans=(3600, 3600, 1800, 900)) if whole_slot(p)][:n]
        for k, p in enumerate(projs):
            text = render(p)
            key = f"C07/{SEED}/{k}"
            ref = reference_schedule(p)
            pend = p["start"] + dt.timedelta(weeks=p["weeks"])
            if any(v[1] is None or v[1] > pend for v in ref.values()):
                continue            # does not fit the declared horizon: horizon extension is outside the core dialect
            proj = run(text)
            evals += 1
            record(key, text)
            got = {f: (s, e) for f, (s, e, sch) in dates(proj).items() if sch}
            want = {f: v for f, v in ref.items() if v[0] is not None}
            if got != want:
                diff = {f: (got.get(f), want.get(f)) for f in set(got) | set(want) if got.get(f) != want.get(f)}
                fails.append({"clause": "C07:reference-schedule", "key": key, "detail": str(diff)[:400], "input": text})
        evals += double_edge_subuniverse(prop, rng, n, fails, record)
        # third sub-universe: a high-priority task that depends on a CONTAINER becomes ready when the container's last leaf is
        # placed; it is then served before lower-priority ready tasks on the same resource
        for k in range(n // 4):
            e = [rng.choice([3, 5, 8]) for _ in range(4)]
            two = rng.random() < 0.5
            text = ('project prj "P" 2025-01-06 +3w { timezone "UTC" }\nresource r "r" {}\n'
                    f'task ph "ph" {{\n  task p "p" {{ priority 600 effort {e[0]}h allocate r }}\n'
                    + (f'  task p2 "p2" {{ priority 600 effort {e[3]}h allocate r depends !p }}\n' if two else "") + '}\n'
                    f'task h "h" {{ priority 900 effort {e[1]}h allocate r depends ph }}\n'
                    f'task l "l" {{ priority {rng.choice([500, 300])} effort {e[2]}h allocate r }}\n')
            proj = run(text)
            evals += 1
            record(("cdep", k), text)
            d_ = dates(proj)
            if not all(v[2] for v in d_.values()):
                fails.append({"clause": "C07:feasible-project-unscheduled", "key": f"C07/cdep/{SEED}/{k}", "input": text, "detail": str(d_)[:200]})
            elif not (d_["ph"][1] <= d_["h"][0] and d_["h"][1] <= d_["l"][0]):
                fails.append({"clause": "C07:priority-order", "key": f"C07/cdep/{SEED}/{k}", "input": text,
                              "detail": f"ph ends {d_['ph'][1]}, h (priority 900) {d_['h'][0]}..{d_['h'][1]}, l (lower priority) starts {d_['l'][0]}"})
    elif prop == "C09":
        for k, p in enumerate(gen_projects(rng, n, containers=False)):
            base = dates(run(render(p)))
            r = rng.choice(p["res"])["id"]
            extra = f'task intruder "I" {{ effort {rng.choice(EFFORTS)} allocate {r} priority 1 }}'
            text = render(p, extra_task=extra)
            withi = dates(run(text))
            evals += 1
            record(k, text)
            if all(v[2] for v in base.values()) and all(v[2] for f, v in withi.items()):
                for f, v in base.items():
                    if withi[f] != v:
                        fails.append({"clause": "C09:intruder-moved-task", "key": f"C09/{SEED}/{k}", "detail": f"{f}: {v} -> {withi[f]}", "input": text})
                        break
        # second sub-universe: allocation-free tasks (milestones) between a low- and a high-priority chain: finishing the
        # milestone makes a HIGHER-priority task ready; the added lowest-priority task competes for that task's resource
        for k in range(n // 2):
            e = [rng.choice(["2h", "5h", "8h", "13h"]) for _ in range(4)]
            pr = rng.choice([600, 900, 1000])
            chain = rng.random() < 0.5
            base = ('project prj "P" 2025-01-06 +4w { timezone "UTC" }\nresource r1 "r1" {}\nresource r2 "r2" {}\n'
                    + (f'task other "other" {{ effort {e[2]} allocate r1 }}\n' if rng.random() < 0.4 else "") +
                    f'task prep "prep" {{ effort {e[0]} allocate r1 }}\n'
                    'task gate "gate" { depends prep }\n'
                    + ('task gate2 "gate2" { depends gate }\n' if chain else "")
                    + f'task hi "hi" {{ effort {e[1]} allocate r2 priority {pr} depends {"gate2" if chain else "gate"} }}\n'
                    )
            text = base + f'task intruder "I" {{ effort {e[3]} allocate r2 priority 1 }}\n'
            a, b = dates(run(base)), dates(run(text))
            evals += 1
            record(("gate", k), text)
            for f, v in a.items():
                if b[f] != v:
                    fails.append({"clause": "C09:intruder-moved-task", "key": f"C09/gate/{SEED}/{k}", "detail": f"{f}: {v} -> {b[f]}", "input": text})
                    break
        # third sub-universe: mixed scheduling directions: a high-priority ALAP task with a deadline and a lowest-priority ASAP
        # intruder on the same resource
        for k in range(n // 4):
            e = [rng.choice(["5h", "8h", "13h"]) for _ in range(3)]
            day = rng.choice([10, 11, 14])
            dl = (START + dt.timedelta(days=day)).strftime("%Y-%m-%d")
            base = ('project prj "P" 2025-01-06 +5w { timezone "UTC" }\nresource r "r" {}\n'
                    f'task m "m" {{ effort {e[0]} allocate r }}\n'
                    f'task h "h" {{ priority 900 scheduling alap end {dl} effort {e[1]} allocate r }}\n')
            pin = (START + dt.timedelta(days=day - 1)).strftime("%Y-%m-%d")
            text = base + f'task intruder "I" {{ priority 1 start {pin} effort {e[2]} allocate r }}\n'
            a, b = dates(run(base)), dates(run(text))
            evals += 1
            record(("mixed", k), text)
            for f, v in a.items():
                if b[f] != v:
                    fails.append({"clause": "C09:intruder-moved-task", "key": f"C09/mixed/{SEED}/{k}", "detail": f"{f}: {v} -> {b[f]}", "input": text})
                    break
    elif prop == "C12":
        for k, p in enumerate(gen_projects(rng, n // 2)):
            text = render(p)
            # the observed text mentions an undefined macro inside a comment; an earlier project defines that name
            ls = text.split("\n")
            for li, ln in enumerate(ls):
                if ln.lstrip().startswith("task ") and ln.endswith(" }") and "priority" not in ln:
                    ls[li] = ln[:-2] + "\n# tuned like ${leak" + str(k) + "}\n}"
                    break
            text = "\n".join(ls)
            a = dates(run(text))
            # (the macro name is new in every round: with a leaking table the FIRST run `a` is still clean)
            if k % 2 == 0:
                run(f"macro leak{k} [\n  like this\n  priority 1000\n]\n" + render(gen_projects(rng, 1)[0]))
            try:
                run(f"macro leak{k} [\n  like this\n  priority 1000\n]\nproject broken \"B\" 2025-01-06 +1w {{ }}\ntask t \"T\" {{ effrt 2d }}\n")
            except Exception:  # noqa   (a failing run is part of the history)
                pass
            b = dates(run(text))
            proj = run(text)
            with contextlib.redirect_stdout(io.StringIO()), contextlib.redirect_stderr(io.StringIO()):
                proj.schedule()
            c = dates(proj)
            evals += 1
            record(k, text)
            if not (a == b == c):
                fails.append({"clause": "C12:same-input-same-output", "key": f"C12/{SEED}/{k}", "detail": "repeat / after other project / second schedule() differ", "input": text})
        # second sub-universe: the same text in fresh interpreters with different hash seeds (set / dict iteration order)
        import subprocess
        texts = []
        for k in range(3 if TIER == "quick" else 8):
            e = [rng.choice([3, 5, 8]) for _ in range(4)]
            texts.append('project prj "P" 2025-01-06 +3w { timezone "UTC" }\n'
                         'resource pri "pri" { vacation 2025-01-06 - 2025-01-20 }\nresource alfa "alfa" {}\nresource bravo "bravo" {}\nresource zulu "zulu" {}\n'
                         f'task routed "routed" {{ effort {e[0]}h allocate pri {{ alternative zulu, alfa, bravo }} }}\n'
                         f'task f1 "f1" {{ effort {e[1]}h allocate alfa }}\ntask f2 "f2" {{ effort {e[2]}h allocate bravo }}\ntask f3 "f3" {{ effort {e[3]}h allocate zulu }}\n')
        code = ("import sys, io, json, contextlib; sys.path.insert(0, %r)\n"
                "from scriptplan.parser.tjp_parser import ProjectFileParser\n"
                "out = []\n"
                "for t in json.loads(sys.stdin.read()):\n"
                "    with contextlib.redirect_stdout(io.StringIO()), contextlib.redirect_stderr(io.StringIO()):\n"
                "        p = ProjectFileParser().parse(t)\n"
                "    out.append(sorted((x.fullId, str(x.get('start', 0)), str(x.get('end', 0))) for x in p.tasks))\n"
                "print(json.dumps(out))\n") % ROOT
        results = {}
        for hs in ("0", "1", "2", "3", "4", "5") if TIER == "quick" else [str(i) for i in range(16)]:
            pr = subprocess.run([sys.executable, "-c", code], input=json.dumps(texts), capture_output=True, text=True,
                                env=dict(os.environ, PYTHONHASHSEED=hs), timeout=600)
            results[hs] = pr.stdout.strip().splitlines()[-1] if pr.stdout.strip() else "ERR " + pr.stderr[-200:]
            evals += len(texts)
        record("hashseed", texts[0])
        if len(set(results.values())) != 1:
            fails.append({"clause": "C12:hash-seed", "key": f"C12/hashseed/{SEED}", "input": texts[0],
                          "detail": f"{len(set(results.values()))} different results over PYTHONHASHSEED {sorted(results)}"})
    elif prop == "C13":
        import scriptplan.scheduler.scoreboard as M1
        import scriptplan.core.working_hours as M2
        import scriptplan.core.project as M3
        orig = (M1._USE_CYTHON, M2._USE_CYTHON, M3._USE_CYTHON)
        if not all(orig):
            print(json.dumps({"name": "universe:C13", "label": "bounded", "bounded_universe": universe, "bounded_evaluations": 0,
                              "bounded_distinct_nontrivial": 0, "failures": [], "note": "extensions not importable in this tree: nothing to compare"}))
            return
        for k, p in enumerate(gen_projects(rng, n // 2)):
            text = render(p)
            M1._USE_CYTHON = M2._USE_CYTHON = M3._USE_CYTHON = True
            a = dates(run(text))
            M1._USE_CYTHON = M2._USE_CYTHON = M3._USE_CYTHON = False
            b = dates(run(text))
            M1._USE_CYTHON, M2._USE_CYTHON, M3._USE_CYTHON = orig
            evals += 1
            record(k, text)
            if a != b:
                fails.append({"clause": "C13:project-differs", "key": f"C13/{SEED}/{k}", "detail": "extensions on vs off", "input": text})
        # second sub-universe: shifts that cross midnight / cover only some weekdays (the compiled working-hours check has
        # its own weekday and tail arithmetic)
        daysets = ["mon - fri", "sun - thu", "sat, sun", "mon, wed, fri", "sun", "mon - sun"]
        spans = ["22:00 - 06:00", "20:00 - 04:00", "23:00 - 01:00", "09:00 - 17:00", "00:00 - 08:00"]
        for k in range(n // 3):
            ds, sp = rng.choice(daysets), rng.choice(spans)
            st = rng.choice(["2025-09-01", "2025-09-06", "2025-09-07", "2025-12-28"])
            text = (f'project prj "N" {st} +3w {{ timezone "Etc/UTC" }}\n'
                    f'shift sh "S" {{ workinghours {ds} {sp} }}\nresource crew "C" {{ workinghours sh }}\n'
                    f'task a "a" {{ effort {rng.choice([5, 12, 20])}h allocate crew }}\ntask b "b" {{ effort 7h allocate crew depends a }}\n')
            try:
                M1._USE_CYTHON = M2._USE_CYTHON = M3._USE_CYTHON = True
                a = dates(run(text))
                la = ledger(run(text))
                M1._USE_CYTHON = M2._USE_CYTHON = M3._USE_CYTHON = False
                b = dates(run(text))
                lb = ledger(run(text))
            finally:
                M1._USE_CYTHON, M2._USE_CYTHON, M3._USE_CYTHON = orig
            evals += 1
            record(("night", k), text)
            if a != b or la != lb:
                fails.append({"clause": "C13:project-differs", "key": f"C13/night/{SEED}/{k}", "detail": f"extensions on {a} vs off {b}"[:300], "input": text})
        # third sub-universe: dates before the project start and off the slot grid (date -> slot conversion of both paths)
        for k in range(n // 6):
            st_ = rng.choice(["2025-01-05-23:30", "2025-01-05-15:40", "2025-01-06-00:00", "2025-01-04-10:10"])
            lv = rng.choice(["", " leaves annual 2025-01-05-15:30 - 2025-01-07", " vacation 2025-01-03-22:45 - 2025-01-08"])
            text = ('project prj "P" 2025-01-06 +2w { timezone "UTC" }\n'
                    f'resource r "r" {{{lv} }}\n'
                    f'task a "a" {{ effort {rng.choice([5, 12])}h allocate r start {st_} }}\n'
                    'task b "b" { effort 4h allocate r scheduling alap }\n')
            res = []
            try:
                for flag in (True, False):
                    M1._USE_CYTHON = M2._USE_CYTHON = M3._USE_CYTHON = flag
                    try:
                        res.append((dates(run(text)), ledger(run(text))))
                    except Exception as e:  # noqa
                        res.append(("raise", type(e).__name__))
            finally:
                M1._USE_CYTHON, M2._USE_CYTHON, M3._USE_CYTHON = orig
            evals += 1
            record(("early", k), text)
            if res[0] != res[1]:
                fails.append({"clause": "C13:project-differs", "key": f"C13/early/{SEED}/{k}", "detail": f"extensions on {str(res[0])[:150]} vs off {str(res[1])[:150]}", "input": text})
    elif prop == "C14":
        for k, p in enumerate(gen_projects(rng, n // 2)):
            # one task gets a pinned start, the project a global vacation day: both move with the project
            pin_days, vac_days = rng.choice([None, 1, 2, 8]), rng.choice([None, 1, 3])

            def with_dates(pp):
                t_ = render(pp)
                if pin_days is not None:
                    d_ = (pp["start"] + dt.timedelta(days=pin_days)).strftime("%Y-%m-%d")
                    ls_ = t_.split("\n")
                    for li_, ln_ in enumerate(ls_):
                        if ln_.startswith("task t0 "):
                            ls_[li_] = ln_.replace(" }", f" start {d_} }}", 1) if ln_.count(" }") == 1 else ln_[:-2] + f" start {d_} }}"
                            break
                    t_ = "\n".join(ls_)
                if vac_days is not None:
                    v0 = (pp["start"] + dt.timedelta(days=vac_days)).strftime("%Y-%m-%d")
                    v1 = (pp["start"] + dt.timedelta(days=vac_days + 1)).strftime("%Y-%m-%d")
                    t_ = t_.replace("\nresource ", f'\nvacation "hol" {v0} - {v1}\nresource ', 1)
                return t_
            if k % 3 == 0:
                p = dict(p, start=dt.datetime(2024, 12, 23))      # crosses 2024-12-31 / 2025-01-01 (end of a leap year)
                for r_ in p["res"]:
                    r_["dailymax"] = r_["dailymax"] or 4
                    r_["leave"] = None
            base = dates(run(with_dates(p)))
            w = rng.choice([1, 4, 51, 52, 53, 104, 157])
            q = dict(p, start=p["start"] + dt.timedelta(weeks=w))
            text = with_dates(q)
            sh = dates(run(text))
            evals += 1
            record(k, text)
            back = {f: (s - dt.timedelta(weeks=w) if s else None, e - dt.timedelta(weeks=w) if e else None, sch) for f, (s, e, sch) in sh.items()}
            if back != base:
                fails.append({"clause": "C14:week-shift", "key": f"C14/{SEED}/{k}", "detail": f"shift {w} weeks", "input": text})
        # second sub-universe: '+Nm' projects that start late in the year (the month arithmetic wraps past December), forward
        # scheduling only (for ALAP the length of a calendar month matters: recorded finding D10a); shifts keep the weekday
        for k in range(n // 6):
            st0 = dt.datetime(2024, rng.choice([10, 11, 12]), 1)
            st0 += dt.timedelta(days=(7 - st0.weekday()) % 7)          # first Monday of the month
            months = rng.choice([3, 6])
            pin = rng.choice([3, 5, 7])

            def mtxt(st_):
                return (f'project prj "P" {st_.strftime("%Y-%m-%d")} +{months}m {{ timezone "UTC" }}\nresource r "r" {{}}\n'
                        f'task a "a" {{ effort 13h allocate r start {(st_ + dt.timedelta(weeks=pin)).strftime("%Y-%m-%d")} }}\n'
                        'task b "b" { effort 20h allocate r depends a }\n')
            w = rng.choice([1, 2, 9, 13])
            a, b = dates(run(mtxt(st0))), dates(run(mtxt(st0 + dt.timedelta(weeks=w))))
            evals += 1
            record(("months", k), mtxt(st0))
            back = {f: (s_ - dt.timedelta(weeks=w) if s_ else None, e_ - dt.timedelta(weeks=w) if e_ else None, sch) for f, (s_, e_, sch) in b.items()}
            if back != a:
                fails.append({"clause": "C14:week-shift", "key": f"C14/months/{SEED}/{k}", "detail": f"+{months}m project starting {st0.date()}, shift {w} weeks: {a} vs {back}"[:300], "input": mtxt(st0)})
    elif prop == "C15":
        for k, p in enumerate(gen_projects(rng, n // 2)):
            base = dates(run(render(p)))
            ren = {"g": "grp", **{t["id"]: "x" + t["id"] for t in p["tasks"]}, **{r["id"]: "w" + r["id"] for r in p["res"]}}
            a = dates(run(render(p, rename=ren)))
            inv = {}
            for f, v in a.items():
                parts = f.split(".")
                back = ".".join({v2: k2 for k2, v2 in ren.items()}.get(x, x) for x in parts)
                inv[back] = v
            b = dates(run(render(p, comments=True)))
            c = dates(run(render(p, precedes=True)))
            evals += 1
            record(k, render(p))
            t0 = render(p)
            e0 = p["tasks"][0]["effort"]
            tm = t0.replace("\n", "\nmacro e0 [effort " + e0 + "]\nmacro alloc [allocate]\n", 1).replace(f"effort {e0} allocate", "${e0} ${alloc}", 1)
            m = dates(run(tm))
            for nm, other in (("rename", inv), ("comments", b), ("precedes", c), ("macro", m)):
                if other != base:
                    fails.append({"clause": f"C15:{nm}", "key": f"C15/{SEED}/{k}", "detail": nm, "input": render(p)})
                    break
        # second sub-universe: nested containers that repeat local ids; every dependency written relative ('!', '!!')
        # vs. as an absolute path must give the same dates, and every written edge must be honoured
        for k in range(n // 3):
            effs = [rng.choice(["2h", "5h", "8h", "11h"]) for _ in range(6)]
            depth2 = rng.random() < 0.5

            def body(rel):
                out = ['project prj "P" 2025-01-06 +4w { timezone "UTC" }', 'resource r1 "r1" {}', 'resource r2 "r2" {}']
                i = 0
                for ph, res in (("phase1", "r1"), ("phase2", "r2")):
                    out.append(f'task {ph} "{ph}" {{')
                    if depth2:
                        out.append('  task build "build" {')
                    pre = f"{ph}.build" if depth2 else ph
                    out.append(f'    task compile "c" {{ effort {effs[i]} allocate {res} }}')
                    dep = "!compile" if rel else f"{pre}.compile"
                    out.append(f'    task test "t" {{ effort {effs[i + 1]} allocate {res} depends {dep} }}')
                    if depth2:
                        out.append("  }")
                        dep2 = "!build.test" if rel else f"{ph}.build.test"
                    else:
                        dep2 = "!test" if rel else f"{ph}.test"
                    out.append(f'  task ship "s" {{ effort {effs[i + 2]} allocate {res} depends {dep2} }}')
                    out.append("}")
                    i += 3
                return "\n".join(out) + "\n"
            ta, tb = body(True), body(False)
            a, b = dates(run(ta)), dates(run(tb))
            evals += 1
            record(("nest", k), ta)
            if a != b:
                diff = {f: (a[f], b[f]) for f in a if a[f] != b.get(f)}
                fails.append({"clause": "C15:relative-vs-absolute", "key": f"C15/nest/{SEED}/{k}", "detail": str(diff)[:300], "input": ta})
            else:
                for ph in ("phase1", "phase2"):
                    pre = f"{ph}.build" if depth2 else ph
                    if a[f"{pre}.test"][0] < a[f"{pre}.compile"][1] or a[f"{ph}.ship"][0] < a[f"{pre}.test"][1]:
                        fails.append({"clause": "C15:edge-not-honoured", "key": f"C15/nest/{SEED}/{k}", "detail": f"{ph}: {a}"[:300], "input": ta})
                        break
        # third sub-universe: an allocation with tied alternatives under consistent renamings of the resources (the choice
        # must depend on the declaration order, not on how the resources are called)
        for k in range(n // 6):
            e = [rng.choice([3, 5, 8]) for _ in range(3)]

            def txt(names):
                p_, a1, a2 = names
                return ('project prj "P" 2025-01-06 +3w { timezone "UTC" }\n'
                        f'resource {p_} "p" {{ vacation 2025-01-06 - 2025-01-20 }}\nresource {a1} "a1" {{}}\nresource {a2} "a2" {{}}\n'
                        f'task routed "routed" {{ effort {e[0]}h allocate {p_} {{ alternative {a1}, {a2} }} }}\n'
                        f'task f1 "f1" {{ effort {e[1]}h allocate {a1} }}\ntask f2 "f2" {{ effort {e[2]}h allocate {a2} }}\n')
            base = dates(run(txt(("pri", "alt1", "alt2"))))
            evals += 1
            record(("alt", k), txt(("pri", "alt1", "alt2")))
            for names in (("pri", "zed", "amy"), ("x9", "qa_x", "dev_x"), ("m", "b", "a")):
                if dates(run(txt(names))) != base:
                    fails.append({"clause": "C15:rename-resources", "key": f"C15/alt/{SEED}/{k}", "input": txt(names),
                                  "detail": f"renaming the resources to {names} changes the dates"})
                    break
    elif prop == "C16":
        for k, p in enumerate(gen_projects(rng, n // 2)):
            one = dates(run(render(p)))
            proj2 = run(render(p, scenario2=True))
            evals += 1
            record(k, render(p))
            for sc in range(2):
                if dates(proj2, sc) != one:
                    fails.append({"clause": "C16:scenario-differs", "key": f"C16/{SEED}/{k}", "detail": f"scenario {sc}", "input": render(p, scenario2=True)})
                    break
        # second sub-universe: a scenario-specific attribute on a task nested in a dated container changes only that scenario
        for k in range(n // 3):
            d1 = START + dt.timedelta(days=rng.choice([0, 7, 2]))
            d2 = d1 + dt.timedelta(days=rng.choice([7, 9, 14]))
            e1, e2, e3 = rng.choice(["3h", "8h", "13h"]), rng.choice(["5h", "20h"]), rng.choice(["2h", "8h"])
            kind = rng.choice(["start", "effort"])
            ov = f"start {d2.strftime('%Y-%m-%d')}" if kind == "start" else f"effort {e2}"

            def txt(scen, x_attrs):
                return (f'project prj "P" 2025-01-06 +5w {{ timezone "UTC"{scen} }}\nresource r1 "r1" {{}}\nresource r2 "r2" {{}}\n'
                        f'task g "G" {{ start {d1.strftime("%Y-%m-%d")}\n  task x "x" {{ {x_attrs} allocate r1 }}\n'
                        f'  task y "y" {{ effort {e3} allocate r2 depends !x }}\n}}\ntask z "z" {{ effort 3h allocate r1 }}\n')
            two = run(txt(' scenario plan "Plan" { scenario delayed "Delayed" }', f"effort {e1} delayed:{ov}"))
            one_plan = run(txt("", f"effort {e1}"))
            one_delayed = run(txt("", f"effort {e1} {ov}" if kind == "start" else f"effort {e2}"))
            evals += 1
            record(("ovr", k), txt(' scenario plan "Plan" { scenario delayed "Delayed" }', f"effort {e1} delayed:{ov}"))
            for sc, ref, nm in ((0, one_plan, "plan"), (1, one_delayed, "delayed")):
                if dates(two, sc) != dates(ref, 0):
                    diff = {f: (dates(two, sc)[f], dates(ref, 0)[f]) for f in dates(ref, 0) if dates(two, sc)[f] != dates(ref, 0)[f]}
                    fails.append({"clause": "C16:override-leaks", "key": f"C16/ovr/{SEED}/{k}", "detail": f"scenario {nm}: {diff}"[:300],
                                  "input": txt(' scenario plan "Plan" { scenario delayed "Delayed" }', f"effort {e1} delayed:{ov}")})
                    break
        # third sub-universe (seed C16-6): something in `plan` is anchored at the project end (an ALAP task without end
        # and successors) and another scenario overrides an effort so that *its* work needs a longer horizon; `plan`
        # must be what it is without the second scenario (only `plan` is compared: the other scenario's own horizon is
        # known finding D14)
        for k in range(max(4, n // 12)):
            weeks = rng.choice([2, 3, 4])
            e1 = rng.choice(["8h", "20h", "3d"])
            big = rng.choice(["30d", "60d", "400h"])
            e2 = rng.choice(["4h", "2d"])

            def txt3(scen, ovr):
                return (f'project prj "P" 2025-01-06 +{weeks}w {{ timezone "UTC"{scen} }}\nresource r1 "r1" {{}}\nresource r2 "r2" {{}}\n'
                        f'task a "a" {{ effort {e1} {ovr} allocate r1 }}\n'
                        f'task h "h" {{ effort {e2} allocate r2 scheduling alap }}\n')
            two = run(txt3(' scenario plan "Plan" { scenario delayed "Delayed" }', f"delayed:effort {big}"))
            one_plan = run(txt3("", ""))
            evals += 1
            record(("end-anchor", k), txt3(' scenario plan "Plan" { scenario delayed "Delayed" }', f"delayed:effort {big}"))
            if dates(two, 0) != dates(one_plan, 0):
                diff = {f: (dates(two, 0)[f], dates(one_plan, 0)[f]) for f in dates(one_plan, 0) if dates(two, 0)[f] != dates(one_plan, 0)[f]}
                fails.append({"clause": "C16:override-moves-plan", "key": f"C16/end/{SEED}/{k}", "detail": f"scenario plan: {diff}"[:300],
                              "input": txt3(' scenario plan "Plan" { scenario delayed "Delayed" }', f"delayed:effort {big}")})
    elif prop == "C18":
        for k, p in enumerate(gen_projects(rng, n // 2)):
            text = render(p).replace('taskreport rep "rep" { formats csv columns id, start, end }',
                                      'taskreport rep "rep" { formats csv, json columns id, start, end timeformat "%Y-%m-%d-%H:%M" }')
            proj = run(text)
            before = dates(proj)
            rep = [r for r in proj.reports][0]
            rep.generate_intermediate_format() if hasattr(rep, "generate_intermediate_format") else None
            content = rep.content
            js, cs = content.to_json(), content.to_csv()
            evals += 1
            record(k, text)
            rows = [r for r in cs[1:]]
            ids = [t.fullId for t in proj.tasks]
            if [r[0] for r in rows] != ids:
                fails.append({"clause": "C18:rows", "key": f"C18/{SEED}/{k}", "detail": f"{[r[0] for r in rows]} vs {ids}", "input": text})
            for r, rec in zip(rows, js["data"]):
                if [rec.get(c) for c in js["columns"]] != r:
                    fails.append({"clause": "C18:json-csv", "key": f"C18/{SEED}/{k}", "detail": f"{rec} vs {r}", "input": text})
                    break
            for r in rows:
                s, e, sch = before[r[0]]
                want = [s.strftime("%Y-%m-%d-%H:%M") if s else "", e.strftime("%Y-%m-%d-%H:%M") if e else ""]
                if r[1:3] != want:
                    fails.append({"clause": "C18:cell", "key": f"C18/{SEED}/{k}", "detail": f"{r} vs {want}", "input": text})
                    break
            if dates(proj) != before:
                fails.append({"clause": "C18:report-changed-schedule", "key": f"C18/{SEED}/{k}", "detail": "", "input": text})
        # format sub-universe (seed C18-6): every date cell is strftime(effective format) of *its own* instant -- formats
        # that print the time of day only through composite directives (%R, %T, %X, %c), several instants on one day,
        # the report's own format or the project's when the report leaves the default
        for k in range(max(6, n // 8)):
            fmt = rng.choice(["%Y-%m-%d %R", "%d.%m.%Y %T", "%x %X", "%c", "%Y-%m-%d", "%a %d %b %H.%M", "%j-%Y %I%p"])
            where = rng.choice(["report", "project"])
            effs = [rng.choice([1, 2, 3]) for _ in range(3)]
            text = ('project prj "P" 2025-01-06 +3w { timezone "UTC"' + (f' timeformat "{fmt}"' if where == "project" else "") + ' }\n'
                    'resource r1 "r1" {}\nresource r2 "r2" {}\n'
                    f'task a "a" {{ effort {effs[0]}h allocate r1 }}\n'
                    f'task b "b" {{ effort {effs[1]}h allocate r1 depends a }}\n'
                    f'task c "c" {{ effort {effs[2]}h allocate r2 depends a }}\n'
                    'taskreport rep "rep" { formats csv columns id, start, end' + (f' timeformat "{fmt}"' if where == "report" else "") + ' }\n')
            proj = run(text)
            before = dates(proj)
            rep = [r for r in proj.reports][0]
            rep.generate_intermediate_format() if hasattr(rep, "generate_intermediate_format") else None
            cs = rep.content.to_csv()
            evals += 1
            record(("fmt", k), text)
            for r in cs[1:]:
                s_, e_, _sch = before[r[0]]
                want = [s_.strftime(fmt) if s_ else "", e_.strftime(fmt) if e_ else ""]
                if r[1:3] != want:
                    fails.append({"clause": "C18:cell-format", "key": f"C18/fmt/{SEED}/{k}", "input": text,
                                  "detail": f"row {r} but the scheduled values render as {want} in the effective format {fmt!r} ({where})"})
                    break
        # file sub-universe: the generated .csv / .json files read back equal the in-memory renderings, also when cells
        # contain CSV punctuation (time formats and names with commas / quotes)
        import csv as _csv
        import shutil as _sh
        import tempfile as _tf
        for k in range(max(4, n // 12)):
            tf_ = rng.choice(["%Y-%m-%d-%H:%M", "%b %d, %Y %H:%M", "%a, %d %b %Y", "%Y-%m-%d"])
            nm = rng.choice(["Design", "Design, review", 'The "big" one', "a;b"])
            nm_tjp = nm.replace('"', "'")
            text = ('project prj "P" 2025-01-06 +3w { timezone "UTC" }\nresource r1 "r1" {}\n'
                    f'task a "{nm_tjp}" {{ effort {rng.choice([2, 5, 9])}h allocate r1 }}\n'
                    'task b "plain" { effort 3h allocate r1 depends a }\n'
                    f'taskreport rep "rep" {{ formats csv, json columns id, name, start, end timeformat "{tf_}" }}\n')
            proj = run(text)
            out = _tf.mkdtemp(prefix="verif_rep_")
            try:
                proj.outputDir = out + os.sep
                rep = [r for r in proj.reports][0]
                with contextlib.redirect_stdout(io.StringIO()), contextlib.redirect_stderr(io.StringIO()):
                    rep.generate()
                mem_csv, mem_json = rep.content.to_csv(), rep.content.to_json()
                evals += 1
                record(("file", k), text)
                fcsv, fjson = os.path.join(out, "rep.csv"), os.path.join(out, "rep.json")
                if os.path.exists(fcsv):
                    rows = list(_csv.reader(open(fcsv, newline="")))
                    if rows != [[str(c) for c in r] for r in mem_csv]:
                        fails.append({"clause": "C18:csv-file", "key": f"C18/file/{SEED}/{k}", "input": text,
                                      "detail": f"rep.csv reads back as {rows[1:2]} but the report cells are {mem_csv[1:2]}"})
                else:
                    fails.append({"clause": "C18:csv-file", "key": f"C18/file/{SEED}/{k}", "input": text, "detail": "rep.csv not written"})
                if os.path.exists(fjson):
                    if json.load(open(fjson)) != json.loads(json.dumps(mem_json, default=str)):
                        fails.append({"clause": "C18:json-file", "key": f"C18/file/{SEED}/{k}", "input": text, "detail": "rep.json differs from to_json()"})
            finally:
                _sh.rmtree(out, ignore_errors=True)
        # second sub-universe: leaf-only report over a tree in which leaves repeat the local ids of containers
        for k in range(n // 3):
            effs = [rng.choice(["2h", "5h", "8h"]) for _ in range(4)]
            ids = rng.sample(["design", "build", "test", "impl"], 3)
            text = ('project prj "P" 2025-01-06 +4w { timezone "UTC" }\nresource r1 "r1" {}\n'
                    f'task {ids[0]} "A" {{\n  task {ids[1]} "B" {{ effort {effs[0]} allocate r1 }}\n  task {ids[2]} "C" {{ effort {effs[1]} allocate r1 }}\n}}\n'
                    f'task {ids[1]} "D" {{\n  task {ids[0]} "E" {{ effort {effs[2]} allocate r1 }}\n}}\n'
                    f'task {ids[2]} "F" {{ effort {effs[3]} allocate r1 }}\n'
                    'taskreport rep "rep" { formats csv, json columns id, start, end leaftasksonly true }\n')
            proj = run(text)
            rep = [r for r in proj.reports][0]
            rep.generate_intermediate_format() if hasattr(rep, "generate_intermediate_format") else None
            cs = rep.content.to_csv()
            evals += 1
            record(("leaf", k), text)
            want = [t.fullId for t in proj.tasks if t.leaf()]
            got = [r[0] for r in cs[1:]]
            if got != want:
                fails.append({"clause": "C18:leaf-rows", "key": f"C18/leaf/{SEED}/{k}", "detail": f"rows {got} vs leaves {want}", "input": text})
    else:
        print(json.dumps({"error": f"no bounded universe for {prop}"}))
        sys.exit(3)
    print(json.dumps({"name": f"universe:{prop}", "label": "bounded", "bounded_universe": universe, "bounded_evaluations": evals,
                      "bounded_distinct_nontrivial": len(nontrivial), "exhaustive": False, "failures": fails[:8]}, default=str))
    sys.exit(1 if fails else 0)


main()
