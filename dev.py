#!/usr/bin/env python3-vt
"""Developer harness: run the contracts of one module and print every obligation with its verdict."""
import importlib
import sys
import time
sys.path.insert(0, "/verif")
from pyvc.engine import REG  # noqa
from pyvc import verify, solve  # noqa


def main():
    mod = sys.argv[1]
    only = sys.argv[2] if len(sys.argv) > 2 else None
    importlib.import_module(mod if "." in mod else "contracts." + mod)
    tot = 0
    bad = 0
    for key, c in REG.contracts.items():
        if only and only not in key:
            continue
        t0 = time.time()
        g = verify.generate(c)
        print(f"== {c.name}  [{key}] paths={g.paths} outcomes={g.outcomes} obls={len(g.obls)} gen={g.gen_time:.2f}s cover={g.cover}")
        for u in g.undecided:
            print("   UNDECIDED:", u)
            bad += 1
        res = solve.discharge_all(g.obls, timeout_ms=10000)
        for r in res:
            o = r["obl"]
            tot += 1
            flag = "ok " if r["status"] == "unsat" else r["status"].upper()
            if r["status"] != "unsat":
                bad += 1
            if r["status"] != "unsat" or "-v" in sys.argv:
                print(f"   {flag:8s} {o.id} path={getattr(o,'path','')} line={o.line} t={r['time']:.2f}s {r['backends']} {o.note[:100]}")
                for p in r["parts"]:
                    if p["status"] != "unsat":
                        print("        part", p["id"], p["status"], p.get("reason", "")[:200])
                        if p.get("model"):
                            m = p["model"]
                            keys = [k for k in m if not k.startswith("H") and "!" not in k or k.startswith("probe!")]
                            print("        model:", {k: m[k] for k in sorted(keys)[:25]})
        print(f"   done in {time.time()-t0:.2f}s")
    print(f"TOTAL obligations={tot} not-discharged/undecided={bad}")


main()
