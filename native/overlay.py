"""Native root for everything that RUNS scriptplan (cross-check, replays, bounded stand-ins, witnesses).

The verifier reads the .pyx sources; the interpreter runs compiled .so files. When a .pyx of the tree under test is newer
than its .so (edited after the last build) the compiled code is not the code that was verified, so the native parts run
on an overlay: a copy of the tree in a scratch directory outside /repo and /verif with the extensions rebuilt from the
current .pyx (`setup.py build_ext --inplace`), removed when the check exits. With fresh .so files the tree is used as is.
"""
import atexit
import glob
import os
import shutil
import subprocess
import tempfile

_CACHE = {}


def stale_extensions(root):
    out = []
    for pyx in sorted(glob.glob(os.path.join(root, "scriptplan", "_cython", "*.pyx"))):
        base = pyx[:-4]
        sos = glob.glob(base + ".*.so") + glob.glob(base + ".so")
        if not sos:
            continue            # no compiled module: the package falls back to pure Python by itself
        if max(os.path.getmtime(s) for s in sos) < os.path.getmtime(pyx):
            out.append(os.path.basename(pyx))
    return out


def native_root(root):
    if root in _CACHE:
        return _CACHE[root]
    info = {"root": root, "overlay": False, "stale": []}
    stale = stale_extensions(root)
    if stale:
        d = tempfile.mkdtemp(prefix="verif_overlay_")
        atexit.register(shutil.rmtree, d, True)
        subprocess.run(["rsync", "-a", "--exclude", ".git", "--exclude", "__pycache__", "--exclude", "*.so", "--exclude", "build",
                        root.rstrip("/") + "/", d + "/"], check=True)
        p = subprocess.run(["/venv/bin/python", "setup.py", "build_ext", "--inplace", "-q"], cwd=d, capture_output=True, text=True,
                           timeout=900)
        shutil.rmtree(os.path.join(d, "build"), ignore_errors=True)
        built = glob.glob(os.path.join(d, "scriptplan", "_cython", "*.so"))
        info = {"root": d, "overlay": True, "stale": stale, "built": [os.path.basename(b) for b in built],
                "build_rc": p.returncode, "build_err": p.stderr[-400:] if p.returncode else ""}
    _CACHE[root] = info
    return info
