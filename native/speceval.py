"""Native evaluation of contract expressions on real Python objects (runs under /venv/bin/python, no z3).

Used for (a) replaying solver counter-models on the real code and (b) the engine cross-check: the real
function is run on concrete pre-states and every `ensures` clause is evaluated on the real result. Numbers
are exact rationals (a float is converted exactly), datetimes/timedeltas are exact seconds.
"""
import ast
import copy
import datetime as _dt
import math
from fractions import Fraction

EPOCH = _dt.datetime(1970, 1, 1)


class DTv:
    __slots__ = ("s",)

    def __init__(self, s):
        self.s = Fraction(s)

    def __repr__(self):
        return f"DT({float(self.s)})"


class TDv:
    __slots__ = ("s",)

    def __init__(self, s):
        self.s = Fraction(s)

    def __repr__(self):
        return f"TD({float(self.s)})"


def dt_secs(d):
    if d.tzinfo is not None:
        d = d.replace(tzinfo=None)
    delta = d - EPOCH
    return Fraction(delta.days * 86400 + delta.seconds) + Fraction(delta.microseconds, 1000000)


def td_secs(t):
    return Fraction(t.days * 86400 + t.seconds) + Fraction(t.microseconds, 1000000)


def wrap(x):
    if isinstance(x, bool) or x is None:
        return x
    if isinstance(x, int):
        return x
    if isinstance(x, float):
        if math.isnan(x) or math.isinf(x):
            return x
        return Fraction(x)
    if isinstance(x, _dt.datetime):
        return DTv(dt_secs(x))
    if isinstance(x, _dt.timedelta):
        return TDv(td_secs(x))
    if isinstance(x, tuple):
        return tuple(wrap(e) for e in x)
    return x


def num(x):
    if isinstance(x, bool):
        return int(x)
    if isinstance(x, (DTv, TDv)):
        return x.s
    return x


TOL = Fraction(1, 10 ** 6)


def approx_eq(a, b):
    a, b = num(a), num(b)
    if isinstance(a, (int, Fraction)) and isinstance(b, (int, Fraction)):
        if a == b:
            return True
        if isinstance(a, int) and isinstance(b, int):
            return False
        scale = max(1, abs(a), abs(b))
        return abs(Fraction(a) - Fraction(b)) <= TOL * scale
    return a == b


class SpecEval:
    def __init__(self, ghost, consts=None, tolerance=True):
        self.ghost = ghost          # name -> (params, src)
        self.consts = consts or {}
        self.tol = tolerance

    def eval(self, src, env, old_env=None, result=None):
        tree = ast.parse(src.strip(), mode="eval").body
        return self.ev(tree, env, old_env, result)

    def truthy(self, v):
        if isinstance(v, (DTv,)):
            return True
        if isinstance(v, TDv):
            return v.s != 0
        if isinstance(v, Fraction):
            return v != 0
        return bool(v)

    def ev(self, n, env, old, res):
        ev = lambda x: self.ev(x, env, old, res)   # noqa
        if isinstance(n, ast.Constant):
            return wrap(n.value)
        if isinstance(n, ast.Name):
            if n.id == "result":
                return wrap(res)
            if n.id in env:
                return wrap(env[n.id])
            if n.id in self.consts:
                return wrap(self.consts[n.id])
            if n.id in ("True", "False"):
                return n.id == "True"
            raise NameError(n.id)
        if isinstance(n, ast.Attribute):
            b = ev(n.value)
            if isinstance(b, DTv):
                secs = math.floor(b.s)
                sod = secs % 86400
                return {"hour": sod // 3600, "minute": (sod % 3600) // 60, "second": sod % 60}[n.attr]
            return wrap(getattr(b, n.attr))
        if isinstance(n, ast.Subscript):
            b = ev(n.value)
            i = ev(n.slice)
            if isinstance(i, Fraction) and i.denominator == 1:
                i = int(i)
            return wrap(b[i])
        if isinstance(n, ast.Tuple):
            return tuple(ev(e) for e in n.elts)
        if isinstance(n, ast.UnaryOp):
            v = ev(n.operand)
            if isinstance(n.op, ast.Not):
                return not self.truthy(v)
            if isinstance(n.op, ast.USub):
                return -num(v)
            return v
        if isinstance(n, ast.BoolOp):
            if isinstance(n.op, ast.And):
                v = True
                for e in n.values:
                    v = ev(e)
                    if not self.truthy(v):
                        return v
                return v
            v = False
            for e in n.values:
                v = ev(e)
                if self.truthy(v):
                    return v
            return v
        if isinstance(n, ast.IfExp):
            return ev(n.body) if self.truthy(ev(n.test)) else ev(n.orelse)
        if isinstance(n, ast.Compare):
            left = ev(n.left)
            for op, rn in zip(n.ops, n.comparators):
                right = ev(rn)
                if not self.cmp(op, left, right):
                    return False
                left = right
            return True
        if isinstance(n, ast.BinOp):
            a, b = ev(n.left), ev(n.right)
            return self.binop(n.op, a, b)
        if isinstance(n, ast.Call):
            return self.call(n, env, old, res)
        raise NotImplementedError(ast.dump(n))

    def cmp(self, op, a, b):
        if isinstance(op, (ast.Is, ast.Eq)):
            if a is None or b is None:
                return a is None and b is None
            if isinstance(a, tuple) and isinstance(b, tuple):
                return len(a) == len(b) and all(self.cmp(op, x, y) for x, y in zip(a, b))
            if isinstance(a, (int, Fraction, DTv, TDv, bool)) and isinstance(b, (int, Fraction, DTv, TDv, bool)):
                return approx_eq(a, b) if self.tol else num(a) == num(b)
            return a is b or a == b
        if isinstance(op, (ast.IsNot, ast.NotEq)):
            return not self.cmp(ast.Eq(), a, b)
        if isinstance(op, ast.In):
            return a in b
        if isinstance(op, ast.NotIn):
            return a not in b
        x, y = num(a), num(b)
        if isinstance(op, ast.Lt):
            return x < y
        if isinstance(op, ast.LtE):
            return x <= y
        if isinstance(op, ast.Gt):
            return x > y
        if isinstance(op, ast.GtE):
            return x >= y
        raise NotImplementedError

    def binop(self, op, a, b):
        if isinstance(a, DTv) and isinstance(b, DTv) and isinstance(op, ast.Sub):
            return TDv(a.s - b.s)
        if isinstance(a, DTv) and isinstance(b, TDv):
            return DTv(a.s + b.s if isinstance(op, ast.Add) else a.s - b.s)
        if isinstance(a, TDv) and isinstance(b, TDv):
            return TDv(a.s + b.s if isinstance(op, ast.Add) else a.s - b.s)
        x, y = num(a), num(b)
        if isinstance(op, ast.Add):
            return x + y
        if isinstance(op, ast.Sub):
            return x - y
        if isinstance(op, ast.Mult):
            return x * y
        if isinstance(op, ast.Div):
            return Fraction(x) / Fraction(y)
        if isinstance(op, ast.FloorDiv):
            return math.floor(Fraction(x) / Fraction(y))
        if isinstance(op, ast.Mod):
            return x - y * math.floor(Fraction(x) / Fraction(y))
        raise NotImplementedError

    def call(self, n, env, old, res):
        ev = lambda x: self.ev(x, env, old, res)   # noqa
        f = n.func
        if isinstance(f, ast.Name):
            name = f.id
            a = n.args
            if name == "old":
                return self.ev(a[0], old, old, res)
            if name == "implies":
                return (not self.truthy(ev(a[0]))) or self.truthy(ev(a[1]))
            if name == "iff":
                return self.truthy(ev(a[0])) == self.truthy(ev(a[1]))
            if name == "ite":
                return ev(a[1]) if self.truthy(ev(a[0])) else ev(a[2])
            if name in ("forall", "exists"):
                if len(a) != 4:
                    raise NotImplementedError("unbounded quantifier cannot be evaluated natively")
                var = a[0].id
                lo, hi = int(num(ev(a[1]))), int(num(ev(a[2])))
                vals = []
                for j in range(lo, hi):
                    env2 = dict(env)
                    env2[var] = j
                    vals.append(self.truthy(self.ev(a[3], env2, old, res)))
                return all(vals) if name == "forall" else any(vals)
            if name == "secs":
                return num(ev(a[0]))
            if name == "dt":
                return DTv(num(ev(a[0])))
            if name == "td":
                return TDv(num(ev(a[0])))
            if name == "floor":
                return math.floor(num(ev(a[0])))
            if name == "trunc":
                return math.trunc(num(ev(a[0])))
            if name == "isint":
                v = num(ev(a[0]))
                return Fraction(v).denominator == 1
            if name == "isnone":
                return ev(a[0]) is None
            if name == "some":
                return ev(a[0])
            if name == "len":
                return len(ev(a[0]))
            if name == "app":
                fn = ev(a[0])
                return fn(*[unwrap(ev(x)) for x in a[1:]])
            if name in ("max", "min"):
                vals = [num(ev(x)) for x in a]
                return max(vals) if name == "max" else min(vals)
            if name == "abs":
                return abs(num(ev(a[0])))
            if name == "tdiv":
                x, y = num(ev(a[0])), num(ev(a[1]))
                q = abs(x) // abs(y)
                return q if (x >= 0) == (y >= 0) else -q
            if name == "seqsum":
                lst = ev(a[0])
                k = a[1].value if len(a) > 1 else 0
                return sum(Fraction(e[k]) for e in lst)
            if name in self.ghost:
                params, src = self.ghost[name]
                env2 = {p: ev(x) for p, x in zip(params, a)}
                return self.eval(src, env2, old, res)
            if name in self.native_fns:
                return self.native_fns[name](*[ev(x) for x in a])
        if isinstance(f, ast.Attribute):
            b = ev(f.value)
            if f.attr == "get" and isinstance(b, dict):
                k = ev(n.args[0])
                if isinstance(k, Fraction) and k.denominator == 1:
                    k = int(k)
                d = ev(n.args[1]) if len(n.args) > 1 else None
                return wrap(b.get(k, unwrap(d)))
            if isinstance(b, DTv) and f.attr == "weekday":
                return (math.floor(b.s) // 86400 + 3) % 7
        raise NotImplementedError(ast.unparse(n))

    native_fns = {}


def unwrap(v):
    if isinstance(v, DTv):
        return EPOCH + _dt.timedelta(microseconds=int(v.s * 1000000))
    if isinstance(v, TDv):
        return _dt.timedelta(microseconds=int(v.s * 1000000))
    if isinstance(v, Fraction):
        return int(v) if v.denominator == 1 else float(v)
    return v


def snapshot(env):
    try:
        return copy.deepcopy(env)
    except Exception:
        return dict(env)
