"""Adapters: concrete pre-state (JSON) -> real objects + the real call. One adapter per family of functions."""
import datetime as dt
import importlib
import os
from fractions import Fraction

EPOCH = dt.datetime(1970, 1, 1)


class Unavailable(Exception):
    pass


def frac(x):
    if isinstance(x, (int, float)):
        return Fraction(x)
    if isinstance(x, str):
        x = x.strip().rstrip("?")
        if x in ("True", "False"):
            return Fraction(int(x == "True"))
        if x.startswith("(- ") and x.endswith(")"):
            return -frac(x[3:-1])
        return Fraction(x)
    return Fraction(x)


def as_int(x):
    return int(frac(x))


def as_bool(x):
    if isinstance(x, bool):
        return x
    return str(x) == "True"


def to_dt(secs):
    f = frac(secs)
    return EPOCH + dt.timedelta(microseconds=int(f * 1000000))


def cy_or_skip(modname, want_cy):
    mod = importlib.import_module(modname)
    has = getattr(mod, "_USE_CYTHON", None)
    orig = getattr(mod, "_ORIG_USE_CYTHON", None)
    if orig is None:
        mod._ORIG_USE_CYTHON = has
        orig = has
    if want_cy and not orig:
        raise Unavailable(f"{modname}: compiled extension not importable in this tree")
    mod._USE_CYTHON = bool(want_cy)
    return mod


# ---------------------------------------------------------------------------------------------------
class ScoreboardAdapter:
    RES = [60, 300, 900, 1800, 3600, 1, 7, 3599]

    def random_input(self, target, variant, rng):
        res = rng.choice(self.RES)
        size = rng.randint(1, 40)
        start = rng.randint(0, 4 * 10 ** 9)
        if rng.random() < 0.2:
            start = Fraction(start * 1000000 + rng.randint(0, 999999), 1000000)
        span = (size - 1) * res - (rng.randint(0, res - 1) if size > 1 else 0)
        end = start + max(0, span)
        k = rng.random()
        if k < 0.35:
            date = start + rng.randint(0, size) * res
        elif k < 0.7:
            date = start + rng.randint(-2 * res, (size + 2) * res)
        else:
            date = start + Fraction(rng.randint(-2 * res * 1000, (size + 2) * res * 1000), 1000)
        n = size
        pattern = [rng.random() < 0.55 for _ in range(n)]
        a = rng.randint(0, size - 1)
        b = rng.randint(a, size - 1)
        return {"start": str(start), "end": str(end), "res": res, "size": size,
                "idx": rng.randint(-3, size + 3), "date": str(date), "force": rng.random() < 0.5,
                "gran": res, "pattern": pattern, "iv_start": str(start + a * res + rng.choice([0, 0, res // 2])),
                "iv_end": str(start + b * res + rng.choice([0, 0, res // 3])),
                "minDuration": rng.choice([0, res, 2 * res, 3 * res, res // 2, 5 * res]),
                "td": str(Fraction(rng.randint(-10 ** 12, 10 ** 12), 1000000))}

    def build(self, target, variant, inp):
        name = target.split("::")[1]
        if target.endswith(".pyx::" + name):
            return self.build_pyx(name, inp)
        S = cy_or_skip("scriptplan.scheduler.scoreboard", variant == "cy")
        start, end = to_dt(inp["start"]), to_dt(inp["end"])
        res, size = as_int(inp["res"]), as_int(inp["size"])
        if name == "Scoreboard.__init__":
            sb = S.Scoreboard.__new__(S.Scoreboard)
            g = as_int(inp.get("gran", res))
            env = {"self": sb, "start": start, "end": end, "granularity": g, "init_val": None}
            return env, (lambda: S.Scoreboard.__init__(sb, start, end, g, None))
        sb = S.Scoreboard(start, start, max(res, 1), None)
        sb.startDate, sb.endDate, sb.resolution, sb.size = start, end, res, size
        pat = inp.get("pattern") or []
        sb.sb = [(1 if (i < len(pat) and pat[i]) else None) for i in range(size)]
        if name == "Scoreboard.clear":
            env = {"self": sb, "init_val": None}
            return env, (lambda: sb.clear(None))
        if name == "Scoreboard.idxToDate":
            idx, force = as_int(inp["idx"]), as_bool(inp["force"])
            env = {"self": sb, "idx": idx, "forceIntoProject": force}
            return env, (lambda: sb.idxToDate(idx, force))
        if name == "Scoreboard.dateToIdx":
            date, force = to_dt(inp["date"]), as_bool(inp["force"])
            env = {"self": sb, "date": date, "forceIntoProject": force}
            return env, (lambda: sb.dateToIdx(date, force))
        if name == "Scoreboard.collectIntervals":
            from scriptplan.utils.time import TimeInterval
            iv = TimeInterval(to_dt(inp["iv_start"]), to_dt(inp["iv_end"]))
            md = float(frac(inp["minDuration"]))
            pred = (lambda v: v is not None)
            env = {"self": sb, "iv": iv, "minDuration": md, "predicate": pred}
            return env, (lambda: sb.collectIntervals(iv, md, pred))
        raise Unavailable(f"no native builder for {name}")

    def build_pyx(self, name, inp):
        try:
            cy = importlib.import_module("scriptplan._cython.scoreboard_cy")
        except ImportError as e:
            raise Unavailable(f"scoreboard_cy not importable: {e}")
        start, end = to_dt(inp["start"]), to_dt(inp["end"])
        res, size = as_int(inp["res"]), as_int(inp["size"])
        if name == "date_to_idx_fast":
            date, force = to_dt(inp["date"]), as_bool(inp["force"])
            env = {"date": date, "start_date": start, "resolution": res, "size": size, "force_into_project": force}
            return env, (lambda: cy.date_to_idx_fast(date, start, res, size, force))
        if name == "idx_to_date_fast":
            idx, force = as_int(inp["idx"]), as_bool(inp["force"])
            env = {"idx": idx, "start_date": start, "resolution": res, "size": size, "force_into_project": force,
                   "end_date": end}
            return env, (lambda: cy.idx_to_date_fast(idx, start, res, size, force, end))
        raise Unavailable(f"{name} is not callable from Python (cdef) or has no builder")


class LimitAdapter:
    """Real scriptplan.core.limits.Limit objects. Inputs: interval start (seconds since epoch, may carry a time of
    day), length in days, period, slot length, value, upper, counters, index."""

    def random_input(self, target, variant, rng):
        slot = rng.choice([3600, 1800, 900, 7200, 600])
        period = rng.choice([86400, 86400, 604800, 604800, 604800, 3600 * 24 * 30])
        # starts spread over year boundaries and 53-week ISO years, with and without a time of day
        base = rng.choice([1735689600, 1766966400, 1767225600, 1798761600, 1609459200 - 3 * 86400, 1451606400,
                           rng.randint(0, 2 * 10 ** 9) // 86400 * 86400])
        start = base + rng.choice([0, 0, 13 * 3600, 9 * 3600 + 1800, 86399])
        days = rng.choice([7, 14, 31, 400, 800])
        horizon_slots = days * 86400 // slot
        n = max(1, (days * 86400) // period + 1)
        return {"istart": start, "days": days, "period": period, "slot": slot, "value": rng.randint(0, 5),
                "upper": rng.random() < 0.8, "upper_arg": rng.random() < 0.8,
                "counters": [rng.randint(0, 6) for _ in range(n)],
                "index": rng.choice([rng.randint(0, horizon_slots), rng.randint(0, 3 * horizon_slots), rng.randint(-50, 50)]),
                "dirty": rng.random() < 0.5}

    def build(self, target, variant, inp):
        from scriptplan.core.limits import Limit
        name = target.split("::")[1]
        start = to_dt(inp["istart"])
        end = start + dt.timedelta(days=as_int(inp.get("days", 14)))
        per = frac(inp["period"])
        per = int(per) if per.denominator == 1 else float(per)
        lim = Limit("limit", start, end, per, as_int(inp.get("value", 1)), as_bool(inp.get("upper", True)), None,
                    as_int(inp["slot"]))
        if inp.get("counters") is not None:
            lim._scoreboard = [as_int(x) for x in inp["counters"]]
        lim._dirty = as_bool(inp.get("dirty", True))
        idx = as_int(inp["index"])
        if name == "Limit._idx_to_sb_idx":
            env = {"self": lim, "index": idx}
            return env, (lambda: lim._idx_to_sb_idx(idx))
        if name == "Limit.ok":
            up = as_bool(inp.get("upper_arg", True))
            env = {"self": lim, "index": idx, "upper": up, "resource": None, "p": lim._idx_to_sb_idx(idx)}
            return env, (lambda: lim.ok(idx, up, None))
        if name == "Limit.inc":
            env = {"self": lim, "index": idx, "resource": None}
            return env, (lambda: lim.inc(idx, None))
        raise Unavailable(f"no native builder for {name}")


class WorkingHoursAdapter:
    """The compiled working-hours kernel (scriptplan/_cython/working_hours_cy) on random interval tables, including
    intervals that cross midnight."""

    def random_input(self, target, variant, rng):
        table = {}
        for wd in rng.sample(range(7), rng.randint(0, 5)):
            ivs = []
            for _ in range(rng.randint(1, 2)):
                a, b = rng.randint(0, 23), rng.randint(0, 23)
                ivs.append([[a, rng.choice([0, 0, 30])], [b if rng.random() < 0.8 else a, rng.choice([0, 0, 30, 59])]])
            table[str(wd)] = ivs
        return {"minutes": rng.randint(0, 1439), "weekday": rng.randint(0, 6), "table": table,
                "cross": rng.random() < 0.7}

    def build(self, target, variant, inp):
        name = target.split("::")[1]
        try:
            cy = importlib.import_module("scriptplan._cython.working_hours_cy")
        except ImportError as e:
            raise Unavailable(f"working_hours_cy not importable: {e}")
        table = {int(k): [((as_int(a[0]), as_int(a[1])), (as_int(b[0]), as_int(b[1]))) for a, b in v]
                 for k, v in (inp.get("table") or {}).items()}
        if name == "check_working_hours_fast":
            m, wd, cross = as_int(inp["minutes"]), as_int(inp["weekday"]), as_bool(inp["cross"])
            env = {"slot_minutes": m, "weekday": wd, "hours_dict": table, "check_cross_midnight": cross}
            return env, (lambda: cy.check_working_hours_fast(m, wd, table, cross))
        raise Unavailable(f"no native builder for {name}")


ADAPTERS = {"scoreboard": ScoreboardAdapter(), "limit": LimitAdapter(), "workinghours": WorkingHoursAdapter()}
NATIVE_FNS = {"uf_sbidx": lambda lim, i: lim._idx_to_sb_idx(int(i))}
